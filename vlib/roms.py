"""Synthetic ROMS grid/forcing files and an independent reference interpolator.

Nothing here imports from ladim.  Conventions (from the ROMS C-grid and the
property text): rho point (i, j) sits at grid coordinates (i, j); u point iu sits at
(iu + 0.5, j); v point jv at (i, jv + 0.5).  Depth Z is positive downwards; level
depths z_r are negative.
"""

from __future__ import annotations

import numpy as np
from netCDF4 import Dataset

EPOCH = np.datetime64("2000-01-01T00:00:00")


# ---------------------------------------------------------------------------
# Grid specification
# ---------------------------------------------------------------------------


def make_levels(N, kind="uniform", seed=0):
    """Strictly increasing Cs_r (N) and Cs_w (N+1) in [-1, 0], interleaved."""
    if kind == "uniform":
        w = np.linspace(-1.0, 0.0, N + 1)
    else:
        rng = np.random.default_rng(seed)
        inc = rng.uniform(0.2, 1.0, N)
        w = np.concatenate([[0.0], np.cumsum(inc)])
        w = w / w[-1] - 1.0
        w[0], w[-1] = -1.0, 0.0
    if kind == "uniform":
        r = 0.5 * (w[:-1] + w[1:])
    else:
        rng = np.random.default_rng(seed + 1)
        f = rng.uniform(0.25, 0.75, N)
        r = w[:-1] + f * (w[1:] - w[:-1])
    return r, w


def ref_zr(h, hc, Cs, Vtransform, stagger="rho"):
    """Level depths (N, ...) from the ROMS formulas (independent re-statement)."""
    h = np.asarray(h, float)
    N = len(Cs)
    if stagger == "rho":
        S = -1.0 + (np.arange(N) + 0.5) / N
    else:
        S = np.linspace(-1.0, 0.0, N)
    Sb = S.reshape((N,) + (1,) * h.ndim)
    Cb = np.asarray(Cs, float).reshape((N,) + (1,) * h.ndim)
    if Vtransform == 1:
        return hc * (Sb - Cb) + Cb * h
    return h * (hc * Sb + Cb * h) / (hc + h)


def make_grid(jmax0, imax0, N=3, h="flat", hval=100.0, mask="none", dx=1000.0,
              levels="uniform", Vtransform=1, hc=0.0, seed=0, lonlat="affine"):
    """Return a grid dict with all arrays a ROMS grid file needs."""
    rng = np.random.default_rng(seed)
    jj, ii = np.mgrid[0:jmax0, 0:imax0].astype(float)
    if isinstance(h, np.ndarray):
        H = h.astype(float)
    elif h == "flat":
        H = np.full((jmax0, imax0), float(hval))
    elif h == "slope":
        H = hval * (0.3 + 0.7 * (ii + 0.5 * jj) / (imax0 + 0.5 * jmax0))
    else:  # noise
        H = hval * rng.uniform(0.2, 1.0, (jmax0, imax0))
    if isinstance(mask, np.ndarray):
        M = mask.astype(float)
    else:
        M = np.ones((jmax0, imax0))
        if mask == "coast":
            M[:, : max(2, imax0 // 4)] = 0
        elif mask == "shore":  # land reaches one cell into the valid region of the full grid, ragged edge
            M[:, :3] = 0
            M[rng.integers(0, jmax0, max(1, jmax0 // 3)), 3] = 0
        elif mask == "islands":
            k = max(1, (jmax0 * imax0) // 12)
            J = rng.integers(2, jmax0 - 2, k)
            I = rng.integers(2, imax0 - 2, k)
            M[J, I] = 0
        elif mask == "random":
            M = (rng.uniform(size=(jmax0, imax0)) > 0.3).astype(float)
    Cs_r, Cs_w = make_levels(N, levels, seed)
    if Vtransform == 1:
        hc = min(hc, float(H.min()))
    if lonlat == "affine":
        lon = 2.0 + 0.02 * ii + 0.003 * jj
        lat = 58.0 + 0.01 * jj - 0.002 * ii
    else:
        lon, lat = lonlat
    return dict(jmax0=jmax0, imax0=imax0, N=N, h=H, mask=M,
                pm=np.full((jmax0, imax0), 1.0 / dx), pn=np.full((jmax0, imax0), 1.0 / dx),
                dx=float(dx), lon=lon, lat=lat, angle=np.zeros((jmax0, imax0)),
                hc=float(hc), Cs_r=Cs_r, Cs_w=Cs_w, Vtransform=int(Vtransform))


def grid_zr(G):
    return ref_zr(G["h"], G["hc"], G["Cs_r"], G["Vtransform"], "rho")


# ---------------------------------------------------------------------------
# File writer
# ---------------------------------------------------------------------------


def write_roms(path, G, times, U, V, extra=None, storage="f8", write_vtransform=True,
               time_units=None, garbage_land=None, time_dtype="f8"):
    """Write one ROMS-like file: grid variables + the given frames.

    times: sequence of np.datetime64[s]; U: (T, N, jmax0, imax0-1); V: (T, N, jmax0-1, imax0)
    extra: dict name -> (T, Nk, jmax0, imax0) arrays.
    storage: 'f8' | 'f4' | ('i2', scale) packed with scale_factor (add_offset 0 for u, v)
    Returns the arrays as the reader will decode them (dict), for the reference.
    """
    jmax0, imax0, N = G["jmax0"], G["imax0"], G["N"]
    extra = extra or {}
    decoded = {}
    with Dataset(path, "w", format="NETCDF4") as nc:
        nc.createDimension("xi_rho", imax0)
        nc.createDimension("eta_rho", jmax0)
        nc.createDimension("xi_u", imax0 - 1)
        nc.createDimension("eta_u", jmax0)
        nc.createDimension("xi_v", imax0)
        nc.createDimension("eta_v", jmax0 - 1)
        nc.createDimension("s_rho", N)
        nc.createDimension("s_w", N + 1)
        nc.createDimension("ocean_time", None)
        for name in ("h", "mask_rho", "pm", "pn", "lon_rho", "lat_rho", "angle"):
            key = {"mask_rho": "mask", "lon_rho": "lon", "lat_rho": "lat"}.get(name, name)
            v = nc.createVariable(name, "f8", ("eta_rho", "xi_rho"))
            v[:, :] = G[key]
        v = nc.createVariable("hc", "f8", ())
        v.assignValue(G["hc"])
        v = nc.createVariable("Cs_r", "f8", ("s_rho",))
        v[:] = G["Cs_r"]
        v = nc.createVariable("Cs_w", "f8", ("s_w",))
        v[:] = G["Cs_w"]
        if write_vtransform:
            v = nc.createVariable("Vtransform", "i4", ())
            v.assignValue(G["Vtransform"])
        units = time_units or f"seconds since {EPOCH}".replace("T", " ")
        tv = nc.createVariable("ocean_time", time_dtype, ("ocean_time",))
        tv.units = units
        ref = np.datetime64(units.split("since")[1].strip().replace(" ", "T"), "s")
        per = {"seconds": 1.0, "minutes": 60.0, "hours": 3600.0, "days": 86400.0}[units.split()[0]]
        tvals = np.array([((np.datetime64(t, "s") - ref) / np.timedelta64(1, "s")) / per for t in times])
        if len(tvals):
            tv[:] = tvals

        def put(name, arr, dims, is_vel):
            arr = np.asarray(arr, float)
            if storage == "f8":
                v = nc.createVariable(name, "f8", dims)
                v[:] = arr
                dec = arr.astype("f8")
            elif storage == "f4":
                v = nc.createVariable(name, "f4", dims)
                v[:] = arr.astype("f4")
                dec = arr.astype("f4")
            else:
                _, scale = storage
                if name == "v":
                    scale = 0.75 * scale   # every packed variable has its own scale factor
                off = 0.0
                if not is_vel:
                    off = float(np.round(arr.mean(), 3)) if arr.size else 0.0
                v = nc.createVariable(name, "i2", dims)
                v.set_auto_maskandscale(False)
                # 'i2full': the packing saturates at both ends of the int16 range (-32768 and 32767 occur on file)
                lo_, hi_ = (-32768, 32767) if storage[0] == "i2full" else (-32000, 32000)
                raw = np.clip(np.round((arr - off) / scale), lo_, hi_).astype("i2")
                v[:] = raw
                v.scale_factor = np.float32(scale)
                v.add_offset = np.float32(off)
                dec = np.float32(off) + np.float32(scale) * raw
            decoded[name] = np.asarray(dec)

        put("u", U, ("ocean_time", "s_rho", "eta_u", "xi_u"), True)
        put("v", V, ("ocean_time", "s_rho", "eta_v", "xi_v"), True)
        for name, arr in extra.items():
            zdim = "s_rho" if arr.shape[1] == N else "s_w"
            put(name, arr, ("ocean_time", zdim, "eta_rho", "xi_rho"), False)
    return decoded


# ---------------------------------------------------------------------------
# Reference interpolation (property C02, stated independently)
# ---------------------------------------------------------------------------


def face_masks(M):
    """Full-grid masks at u and v points: a face is open iff both cells are sea."""
    Mu = M[:, :-1] * M[:, 1:]
    Mv = M[:-1, :] * M[1:, :]
    return Mu, Mv


def cell_candidates(x):
    """Nearest integer(s): both neighbours when x is exactly half-way."""
    f = np.floor(x)
    if x - f == 0.5:
        return [int(f), int(f) + 1]
    return [int(np.floor(x + 0.5))]


def vert_weights(zcol, Z):
    """(k, a): value = a*F[k-1] + (1-a)*F[k]; clamped outside the level range.

    zcol: increasing level depths (negative), Z: particle depth positive down.
    For a single level returns (0, 0.0) meaning F[0].
    """
    n = len(zcol)
    z = -Z
    if n == 1 or z >= zcol[-1]:
        return n - 1, 0.0  # top level (a=0 -> F[k])
    if z <= zcol[0]:
        return 1, 1.0  # bottom level F[0]
    k = int(np.searchsorted(zcol, z, side="left"))
    k = min(max(k, 1), n - 1)
    a = (zcol[k] - z) / (zcol[k] - zcol[k - 1])
    return k, float(a)


def _vred(F3, k, a, j, i):
    if F3.shape[0] == 1:
        return float(F3[0, j, i])
    return a * float(F3[k - 1, j, i]) + (1 - a) * float(F3[k, j, i])


def ref_velocity_one(G, zr, U, V, x, y, Z, cell=None):
    """Reference (u, v) at one global position; U, V are single frames (N, ., .).

    Returns also the list of the (masked) node values used, for the convexity check.
    """
    Mu, Mv = face_masks(G["mask"])
    if cell is None:
        cell = (cell_candidates(x)[0], cell_candidates(y)[0])
    ci, cj = cell
    k, a = vert_weights(zr[:, cj, ci], Z)
    # u: nodes (iu + 0.5, j)
    xs = x - 0.5
    iu = int(np.floor(xs))
    j = int(np.floor(y))
    p, q = xs - iu, y - j
    nodes_u = {}
    for dj in (0, 1):
        for di in (0, 1):
            jj, ii = j + dj, iu + di
            if (q == 0 and dj == 1) or (p == 0 and di == 1):
                nodes_u[(dj, di)] = 0.0  # zero weight: may lie outside the array
                continue
            nodes_u[(dj, di)] = _vred(U, k, a, jj, ii) * Mu[jj, ii]
    u = ((1 - p) * (1 - q) * nodes_u[(0, 0)] + p * (1 - q) * nodes_u[(0, 1)]
         + (1 - p) * q * nodes_u[(1, 0)] + p * q * nodes_u[(1, 1)])
    wu = {(0, 0): (1 - p) * (1 - q), (0, 1): p * (1 - q), (1, 0): (1 - p) * q, (1, 1): p * q}
    # v: nodes (i, jv + 0.5)
    ys = y - 0.5
    i = int(np.floor(x))
    jv = int(np.floor(ys))
    p2, q2 = x - i, ys - jv
    nodes_v = {}
    for dj in (0, 1):
        for di in (0, 1):
            jj, ii = jv + dj, i + di
            if (q2 == 0 and dj == 1) or (p2 == 0 and di == 1):
                nodes_v[(dj, di)] = 0.0
                continue
            nodes_v[(dj, di)] = _vred(V, k, a, jj, ii) * Mv[jj, ii]
    v = ((1 - p2) * (1 - q2) * nodes_v[(0, 0)] + p2 * (1 - q2) * nodes_v[(0, 1)]
         + (1 - p2) * q2 * nodes_v[(1, 0)] + p2 * q2 * nodes_v[(1, 1)])
    wv = {(0, 0): (1 - p2) * (1 - q2), (0, 1): p2 * (1 - q2), (1, 0): (1 - p2) * q2,
          (1, 1): p2 * q2}
    raw_u = []
    raw_v = []
    for (dj, di), w in wu.items():
        if w > 0:
            jj, ii = j + dj, iu + di
            m = Mu[jj, ii]
            lv = [0] if U.shape[0] == 1 else [k - 1, k]
            raw_u += [float(U[l, jj, ii]) * m for l in lv]
    for (dj, di), w in wv.items():
        if w > 0:
            jj, ii = jv + dj, i + di
            m = Mv[jj, ii]
            lv = [0] if V.shape[0] == 1 else [k - 1, k]
            raw_v += [float(V[l, jj, ii]) * m for l in lv]
    return u, v, raw_u, raw_v, (k, a)


def ref_velocity(G, zr, U, V, X, Y, Z):
    out_u = np.empty(len(X))
    out_v = np.empty(len(X))
    for n in range(len(X)):
        out_u[n], out_v[n], _, _, _ = ref_velocity_one(G, zr, U, V, X[n], Y[n], Z[n])
    return out_u, out_v
