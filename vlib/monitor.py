"""Index monitor for the compiled sampling kernels (C17).

Wraps ladim.ROMS.trilinear / z2s_kernel and the nearest-neighbour branch of sample3D and
recomputes, in Python, the set of array elements each call touches.  Raises OutOfBounds for any
index outside the array - including negative ones, which numba (like numpy) wraps silently
even with NUMBA_BOUNDSCHECK=1.
"""
import numpy as np

STATS = {"trilinear": 0, "z2s": 0, "nearest": 0, "near_edge": 0}
_installed = False


class OutOfBounds(Exception):
    pass


def install():
    global _installed
    if _installed:
        return
    import ladim.ROMS as R

    tri, z2sk, s3d = R.trilinear, R.z2s_kernel, R.sample3D

    def trilinear(F, X, Y, K, A):
        STATS["trilinear"] += 1
        kmax, jmax, imax = F.shape
        X = np.asarray(X, float)
        Y = np.asarray(Y, float)
        K = np.asarray(K)
        if len(X):
            if not (np.all(np.isfinite(X)) and np.all(np.isfinite(Y))):
                raise OutOfBounds(f"trilinear: non-finite position {X[~np.isfinite(X)][:2]} {Y[~np.isfinite(Y)][:2]}")
            i = np.trunc(X).astype(np.int64)
            j = np.trunc(Y).astype(np.int64)
            bad = (i < 0) | (i + 1 > imax - 1) | (j < 0) | (j + 1 > jmax - 1)
            if bad.any():
                n = int(np.nonzero(bad)[0][0])
                raise OutOfBounds(f"trilinear: particle {n} at local ({X[n]}, {Y[n]}) touches i={i[n]},{i[n] + 1} "
                                  f"j={j[n]},{j[n] + 1} of a field with shape {F.shape}")
            lowk = K - 1 < (0 if kmax > 1 else -1)
            badk = lowk | (K > kmax - 1)
            if badk.any():
                n = int(np.nonzero(badk)[0][0])
                raise OutOfBounds(f"trilinear: particle {n} uses levels {K[n] - 1},{K[n]} of {kmax}")
            if ((i == 0) | (i + 1 == imax - 1) | (j == 0) | (j + 1 == jmax - 1)).any():
                STATS["near_edge"] += 1
        return tri(F, X, Y, K, A)

    def z2s_kernel(I, J, Z, z_rho):
        STATS["z2s"] += 1
        kmax, jmax, imax = z_rho.shape
        I = np.asarray(I)
        J = np.asarray(J)
        bad = (I < 0) | (I > imax - 1) | (J < 0) | (J > jmax - 1)
        if bad.any():
            n = int(np.nonzero(bad)[0][0])
            raise OutOfBounds(f"z2s: particle {n} looks up column (J={J[n]}, I={I[n]}) of a grid with shape {z_rho.shape}")
        return z2sk(I, J, Z, z_rho)

    def sample3D(F, X, Y, K, A, method="bilinear"):
        if method != "bilinear":
            STATS["nearest"] += 1
            kmax, jmax, imax = F.shape
            I = np.floor(np.asarray(X, float) + 0.5).astype(np.int64)
            J = np.floor(np.asarray(Y, float) + 0.5).astype(np.int64)
            Kk = np.asarray(K)
            bad = (I < 0) | (I > imax - 1) | (J < 0) | (J > jmax - 1) | (Kk < 0) | (Kk > kmax - 1)
            if bad.any():
                n = int(np.nonzero(bad)[0][0])
                raise OutOfBounds(f"nearest: particle {n} reads F[{Kk[n]}, {J[n]}, {I[n]}] of shape {F.shape}")
        return s3d(F, X, Y, K, A, method=method)

    R.trilinear = trilinear
    R.z2s_kernel = z2s_kernel
    R.sample3D = sample3D
    _installed = True
