"""General end-to-end simulation scenarios: strategy, file builder, runner.

A scenario is a plain JSON-able dict.  All times are in model steps relative to the
simulation start (step 0); the builder turns them into absolute times.
"""

from __future__ import annotations

from pathlib import Path

import numpy as np
from hypothesis import strategies as st

from . import e2e, roms, scen

PLUG = Path(__file__).resolve().parent / "plugins"
DT = 60
DX = 100.0


def sea_cells(G, sub=None):
    """(i, j) of sea cells strictly inside the valid region of the (sub)grid."""
    M = G["mask"]
    jm, im = M.shape
    i0, i1, j0, j1 = sub or (1, im - 1, 1, jm - 1)
    out = []
    for j in range(j0 + 1, j1 - 1):
        for i in range(i0 + 1, i1 - 1):
            # cell centre i is inside (xmin + 0.5, xmax - 0.5) = (i0 + 0.5, i1 - 1.5)
            if M[j, i] > 0 and i0 + 0.5 < i < i1 - 1.5 and j0 + 0.5 < j < j1 - 1.5:
                out.append((i, j))
    return out


@st.composite
def scenario(draw, max_steps=12, reverse=None, layouts=("sparse", "dense"), extra_forcing=None,
             min_gap=2, kills=True, masks=("none", "islands", "coast"), advection=("EF", "RK2", "RK4"),
             numrec=(0, 1, 2, 3), continuous=(False, True), pvars=None, lonlat=(False, True),
             dtypes=("f8",), out_of_grid=True, ref_kinds=("none", "before", "start", "after"),
             subgrids=(False, False, True), late_release=(0, 0, 0, 1, 2), stop_offsets=(0,)):
    jm = draw(st.integers(7, 11))
    im = draw(st.integers(8, 12))
    N = draw(st.integers(2, 4))
    gseed = draw(st.integers(0, 10**6))
    mask = draw(st.sampled_from(masks))
    hkind = draw(st.sampled_from(["flat", "slope", "noise"]))
    nsteps = draw(st.integers(1, max_steps))
    rev = draw(st.booleans()) if reverse is None else reverse
    # forcing frames: gaps in steps, covering [-pre, nsteps + post]
    pre = draw(st.integers(0, 3))
    gaps = []
    span = 0
    while span < pre + nsteps + 1:
        g = draw(st.integers(min_gap, 6))
        gaps.append(g)
        span += g
    nfr = len(gaps) + 1
    # partition of frames into files
    part = []
    left = nfr
    while left > 0:
        k = draw(st.integers(1, left))
        part.append(k)
        left -= k
    vel = dict(kind=draw(st.sampled_from(["const", "shear", "noise"])),
               amp=draw(st.sampled_from([0.05, 0.2, 0.5])),
               u=draw(st.sampled_from([0.0, 0.1, -0.2, 0.45 if out_of_grid else 0.1])),
               v=draw(st.sampled_from([0.0, -0.1, 0.15])), seed=draw(st.integers(0, 10**6)))
    xf = draw(st.booleans()) if extra_forcing is None else extra_forcing
    tunits = draw(st.sampled_from([None, None, None, "hours", "days", "minutes"]))
    # optional subgrid (only on grids wide enough to keep sea cells in its valid region), offsets i0 != j0 likely
    sub = None
    if draw(st.sampled_from(subgrids)) and im >= 10 and jm >= 9:
        sub = [draw(st.integers(1, 2)), im - 1 - draw(st.integers(0, 1)), draw(st.integers(1, 3)), jm - 1 - draw(st.integers(0, 1))]
    # release rows; the first release may come some steps after the start (the model runs empty until then)
    ntimes = draw(st.integers(1, 4))
    late = min(draw(st.sampled_from(late_release)), max(0, nsteps - 1))
    rel_steps = sorted(set([late] + [draw(st.integers(late, max(late, nsteps - 1))) for _ in range(ntimes - 1)]))
    rows = []
    tag = 0
    for s in rel_steps:
        for _ in range(draw(st.integers(1, 3))):
            mult = draw(st.sampled_from([1, 1, 1, 2, 3]))
            rows.append(dict(step=s, cell=draw(st.integers(0, 10**6)),
                             fx=draw(st.floats(-0.45, 0.45)), fy=draw(st.floats(-0.45, 0.45)),
                             zf=draw(st.floats(0.0, 1.0)), mult=mult, tag=tag))
            tag += 1
    cont = draw(st.sampled_from(continuous))
    freq = draw(st.integers(1, 3)) if cont else 0
    kl = []
    deact = []
    lifetime = 0
    if kills:
        for _ in range(draw(st.integers(0, 4))):
            kl.append([draw(st.integers(0, max(0, nsteps - 1))), draw(st.integers(0, tag - 1))])
        for _ in range(draw(st.integers(0, 2))):
            deact.append([draw(st.integers(0, max(0, nsteps - 1))), draw(st.integers(0, tag - 1))])
        lifetime = draw(st.sampled_from([0, 0, 2, 3, 5]))
    pv = draw(st.lists(st.sampled_from(["release_time", "X0", "kind"]), unique=True, max_size=3)) \
        if pvars is None else list(pvars)
    out = dict(period=draw(st.integers(1, 3)), numrec=draw(st.sampled_from(numrec)),
               layout=draw(st.sampled_from(layouts)), dtype=draw(st.sampled_from(dtypes)),
               ref=draw(st.sampled_from(ref_kinds)), lonlat=draw(st.sampled_from(lonlat)))
    return dict(grid=dict(jm=jm, im=im, N=N, seed=gseed, mask=mask, h=hkind, sub=sub),
                time=dict(nsteps=nsteps, reverse=rev, pre=pre, stop_off=draw(st.sampled_from(stop_offsets))),
                forcing=dict(gaps=gaps, partition=part, vel=vel, temp=xf, tunits=tunits),
                release=dict(rows=rows, continuous=cont, freq=freq),
                ibm=dict(kills=kl, deactivate=deact, lifetime=lifetime),
                tracker=dict(advection=draw(st.sampled_from(advection))),
                pvars=sorted(pv), output=out)


def build(d: Path, scn, out_name="out.nc", record_output=True, record_ibm=False, extra_conf=None,
          shift_steps=0, ibm_offset=0, vel_sign=1.0):
    """Write all files of a scenario into directory d; returns (conf_path, meta)."""
    g = scn["grid"]
    G = roms.make_grid(g["jm"], g["im"], N=g["N"], h=g["h"], hval=80.0, mask=g["mask"], dx=DX,
                       seed=g["seed"], levels="random")
    if g.get("metric") == "varying":
        # curvilinear grid: the cell sizes vary smoothly (by up to about 40 %) and differently in x and y
        jj_, ii_ = np.mgrid[0:g["jm"], 0:g["im"]].astype(float)
        G["pm"] = 1.0 / (DX * (0.8 + 0.04 * ii_ + 0.15 * np.sin(0.9 * jj_ + g["seed"] % 7)))
        G["pn"] = 1.0 / (DX * (0.9 + 0.03 * jj_ + 0.15 * np.cos(0.7 * ii_ + g["seed"] % 5)))
    if g.get("curved"):
        # curvilinear coordinates: longitude / latitude are not linear in the grid indices, so the inverse
        # (lon, lat) -> (X, Y) takes a different number of solver iterations in different parts of the grid
        jc_, ic_ = np.mgrid[0:g["jm"], 0:g["im"]].astype(float)
        G["lon"] = 2.0 + 0.02 * ic_ + 0.003 * jc_ + 0.001 * ic_ * jc_ + 0.002 * ic_ ** 2
        G["lat"] = 58.0 + 0.01 * jc_ - 0.002 * ic_ + 0.001 * jc_ ** 2
    tm = scn["time"]
    rev = tm["reverse"]
    sgn = -1 if rev else 1
    nsteps = tm["nsteps"]
    start = scen.T0 + scen.S(3600) + scen.S(shift_steps * DT)
    # the stop time may lie between two steps: the run then has floor((stop - start) / dt) steps
    stop = start + scen.S(sgn * (nsteps * DT + int(tm.get("stop_off", 0))))
    f = scn["forcing"]
    fsteps = np.concatenate([[-tm["pre"]], -tm["pre"] + np.cumsum(f["gaps"])])
    # optional per-frame offsets (seconds, 0 <= off < DT) in simulation direction: frames between model steps
    offs = f.get("offgrid") or []
    offs = [int(offs[k % len(offs)]) if offs else 0 for k in range(len(fsteps))]
    if tm["pre"] == 0:
        offs[0] = 0  # the first frame must not be later than the start
    ftimes = [start + scen.S(sgn * (int(s) * DT + o)) for s, o in zip(fsteps, offs)]
    nfr = len(ftimes)
    U, V = scen.vel_arrays(G, nfr, f["vel"], seed=f["vel"]["seed"])
    U, V = vel_sign * U, vel_sign * V
    extra = None
    if f["temp"]:
        rng = np.random.default_rng(f["vel"]["seed"] + 7)
        extra = {"temp": rng.uniform(2, 12, (nfr, G["N"], g["jm"], g["im"]))}
    order = np.argsort(np.array(ftimes))
    ft = [ftimes[i] for i in order]
    U, V = U[order], V[order]
    if extra:
        extra = {k: v[order] for k, v in extra.items()}
    part = f["partition"] if not rev else f["partition"][::-1]
    # time axis of the forcing files: seconds (the usual ROMS way), or hours / days since another epoch as
    # float64 (values that are not exactly representable)
    tunits = {None: None, "hours": "hours since 1990-01-01 00:00:00", "days": "days since 1948-01-01 00:00:00",
              "minutes": "minutes since 2000-01-01 00:00:00"}[f.get("tunits")]
    storage = "f8"
    if f.get("packed"):
        # velocity stored as 16-bit integers with a scale factor chosen so that the strongest currents saturate at
        # the ends of the integer range.  The flow of opposite sign (vel_sign = -1) is the negated *decoded* field,
        # written as 32-bit floats (the dtype the reader decodes packed data to).
        U0, V0 = U / vel_sign, V / vel_sign
        scale = float(f["packed"]) * max(float(np.abs(U0).max()), float(np.abs(V0).max()), 1e-3) / 32768.0
        storage = ("i2full", scale)
        if vel_sign != 1.0:
            U = vel_sign * (np.float32(scale) * np.clip(np.round(U0 / scale), -32768, 32767).astype("i2"))
            V = vel_sign * (np.float32(0.75 * scale) * np.clip(np.round(V0 / (0.75 * scale)), -32768, 32767).astype("i2"))
            storage = "f4"
    fname, files = scen.write_forcing(d, G, ft, U, V, partition=part, extra=extra, time_units=tunits,
                                      storage=storage)
    cells = sea_cells(G, g.get("sub"))
    if not cells:
        raise ValueError("no sea cell")
    rel = scn["release"]
    if rel.get("near_land"):
        # release next to land (within two cells of a land cell), so that moves onto land are frequent
        Mk = G["mask"]
        near = [(i, j) for (i, j) in cells
                if (Mk[max(0, j - 2):j + 3, max(0, i - 2):i + 3] < 1).any()]
        cells = near or cells
    rows = []
    cols = ["release_time", "X", "Y", "Z", "mult", "tag"]
    pv = scn["pvars"]
    if "X0" in pv:
        cols.append("X0")
    if "kind" in pv:
        cols.append("kind")
    if rel.get("active_col"):
        cols.append("active")   # the state's own flag given per release row as 0 / 1
    if rel.get("by_lonlat"):
        cols[1:3] = ["lon", "lat"]   # positions given by longitude / latitude (converted by the model)
    placed = []
    first_step = min((r["step"] for r in rel["rows"]), default=0)
    for r in rel["rows"]:
        r = dict(r)
        if rel["continuous"]:  # file times on the release-frequency grid anchored at the first
            r["step"] = first_step + ((r["step"] - first_step) // rel["freq"]) * rel["freq"]
        i, j = cells[r["cell"] % len(cells)]
        if r.get("edge") == "east":  # a cell in the easternmost column of the valid region
            imax_ = max(c[0] for c in cells)
            col = [c for c in cells if c[0] == imax_]
            i, j = col[r["cell"] % len(col)]
        x, y = i + r["fx"], j + r["fy"]
        z = r["zf"] * float(G["h"][j, i])
        t = start + scen.S(sgn * r["step"] * DT)
        row = [e2e.iso(t), repr(float(x)), repr(float(y)), repr(float(z)), r["mult"], r["tag"]]
        if rel.get("by_lonlat"):
            i_, j_ = min(int(x), g["im"] - 2), min(int(y), g["jm"] - 2)
            p_, q_ = x - i_, y - j_
            for n_, F_ in ((1, G["lon"]), (2, G["lat"])):
                row[n_] = repr(float((1 - p_) * (1 - q_) * F_[j_, i_] + p_ * (1 - q_) * F_[j_, i_ + 1]
                                     + (1 - p_) * q_ * F_[j_ + 1, i_] + p_ * q_ * F_[j_ + 1, i_ + 1]))
        if "X0" in pv:
            row.append(repr(float(x)))
        if "kind" in pv:
            row.append(r["tag"] % 3)
        if rel.get("active_col"):
            row.append(0 if (rel["active_col"] >> (r["tag"] % 8)) & 1 else 1)
        rows.append(row)
        placed.append(dict(step=r["step"], x=x, y=y, z=z, mult=r["mult"], tag=r["tag"]))
    e2e.write_release(d / "rel.rls", rows, cols)
    o = scn["output"]
    ref = {"none": None, "before": start - scen.S(86400 * 3 + 17), "start": start,
           "after": start + scen.S(7200)}[o["ref"]]
    ivars = ["pid", "X", "Y", "Z", "tag", "age"]
    if f["temp"]:
        ivars.append("temp")
    if o["lonlat"]:
        ivars += ["lon", "lat"]
    conf = e2e.base_conf(d, start, stop, DT, fname, d / "rel.rls", out=out_name,
                         advection=scn["tracker"]["advection"], period=o["period"] * DT,
                         numrec=o["numrec"], layout=o["layout"], reverse=rev, reference=ref,
                         ivars=ivars, dtype=o["dtype"])
    conf["output"]["instance_variables"]["tag"] = e2e.outvar("i4")
    if o.get("pack_xy"):
        # positions stored packed (the way examples/killer/dense.yaml stores X): precision = scale_factor / 2
        for v in ("X", "Y"):
            conf["output"]["instance_variables"][v] = e2e.outvar("i4", scale_factor=float(o["pack_xy"]))
    if o.get("active_out"):
        conf["output"]["instance_variables"]["active"] = e2e.outvar("i1")   # the state's flag as 0 / 1 bytes
    if o.get("pack_age"):
        # a packed output variable (integer on file, scale_factor / add_offset attributes); age counts whole steps,
        # so the packing is lossless
        sf, off = o["pack_age"]
        conf["output"]["instance_variables"]["age"] = e2e.outvar("i4", scale_factor=float(sf), add_offset=float(off))
    if g.get("sub"):
        conf["grid"]["subgrid"] = list(g["sub"])
    state = {"instance_variables": {"tag": "int", "age": "float"}, "default_values": {"age": 0.0}}
    if o["lonlat"]:  # as in examples/latlon: lon, lat are state variables with defaults
        state["instance_variables"].update(lon="float", lat="float")
        state["default_values"].update(lon=5.0, lat=60.0)
    if f["temp"]:
        state["instance_variables"]["temp"] = "float"
        conf["forcing"]["extra_forcing"] = ["temp"]
    pvd = {}
    pvo = {}
    if "release_time" in pv:
        pvd["release_time"] = "time"
        pvo["release_time"] = e2e.outvar("f8", units="seconds since reference_time")
    if "X0" in pv:
        pvd["X0"] = "float"
        pvo["X0"] = e2e.outvar(o["dtype"])
    if "kind" in pv:
        pvd["kind"] = "int"
        pvo["kind"] = e2e.outvar("i4")
    if pvd:
        state["particle_variables"] = pvd
        conf["output"]["particle_variables"] = pvo
    conf["state"] = state
    if rel["continuous"]:
        conf["release"]["continuous"] = True
        conf["release"]["release_frequency"] = rel["freq"] * DT
    ib = scn["ibm"]
    conf["ibm"] = {"module": str(PLUG / "ibm_script.py"), "kills": ib["kills"],
                   "deactivate": ib["deactivate"], "lifetime": ib["lifetime"], "record": record_ibm,
                   "step_offset": ibm_offset}
    if record_output:
        conf["output"]["module"] = str(PLUG / "rec_output.py")
    if extra_conf:
        for sec, kv in extra_conf.items():
            conf.setdefault(sec, {}).update(kv)
    e2e.write_yaml(conf, d / "ladim.yaml")
    meta = dict(G=G, start=start, stop=stop, sgn=sgn, placed=placed, conf=conf, files=files,
                ftimes=ft, U=U, V=V, extra=extra, ref=ref if ref is not None else min(start, stop))
    return d / "ladim.yaml", meta


def run(d, scn, **kw):
    path, meta = build(d, scn, **kw)
    r = e2e.run_main(path)
    return r, meta
