"""Shared machinery: CLI contract, sharding, Hypothesis driver, evidence, known findings.

Exit codes: 0 held (possibly KNOWN-FINDING lines), 1 VIOLATION, 2 harness error.
"""

from __future__ import annotations

import hashlib
import json
import multiprocessing
import os
import sys
import time
import traceback
from collections import Counter
from pathlib import Path

VERIF = Path(__file__).resolve().parent.parent
# Sensitivity runs (planted mutants, seeded changes) write their evidence and replays elsewhere so that
# the committed evidence always describes the unchanged tree.
EVIDENCE = Path(os.environ.get("VERIF_EVIDENCE_DIR") or VERIF / "evidence")
REPLAYS = Path(os.environ.get("VERIF_REPLAY_DIR") or VERIF / "replays")
KNOWN_FILE = VERIF / "known_findings.json"
NWORKERS = int(os.environ.get("VERIF_WORKERS", "16"))


class HarnessError(Exception):
    """Something is wrong with the machinery (never a violation)."""


def jdefault(o):
    import numpy as np

    if isinstance(o, np.ndarray):
        return o.tolist()
    if isinstance(o, (np.integer,)):
        return int(o)
    if isinstance(o, (np.floating,)):
        return float(o)
    if isinstance(o, (np.bool_,)):
        return bool(o)
    if isinstance(o, (set, frozenset)):
        return sorted(o)
    if isinstance(o, Path):
        return str(o)
    if isinstance(o, (np.datetime64, np.timedelta64)):
        return str(o)
    return repr(o)


def jdump(o, **kw):
    return json.dumps(o, default=jdefault, sort_keys=True, **kw)


def case_hash(case) -> str:
    return hashlib.sha1(jdump(case).encode()).hexdigest()[:16]


def subseed(seed: int, *parts) -> int:
    h = hashlib.sha256(repr((seed, *parts)).encode()).digest()
    return int.from_bytes(h[:8], "big") % (2**63)


# ---------------------------------------------------------------------------
# Per-case result and per-shard statistics
# ---------------------------------------------------------------------------


class CaseResult:
    """What an oracle reports about one case."""

    __slots__ = ("nontrivial", "classes", "violations", "info")

    def __init__(self):
        self.nontrivial = False
        self.classes: list[str] = []
        self.violations: list[dict] = []  # {"sig": str, "msg": str}
        self.info = None

    def cls(self, name: str):
        self.classes.append(name)

    def fail(self, sig: str, msg: str):
        self.violations.append({"sig": sig, "msg": msg[:2000]})

    def check(self, cond, sig: str, msg="") -> bool:
        if not cond:
            self.fail(sig, msg if isinstance(msg, str) else msg())
        return bool(cond)


class Stats:
    """Mergeable counters for one shard / one part of a check."""

    def __init__(self):
        self.evaluations = 0
        self.nontrivial: set[str] = set()
        self.classes: Counter = Counter()
        self.samples: list = []
        self.known_hits: Counter = Counter()
        self.violations: list[dict] = []  # {"part","sig","msg","case"}
        self.notes: list[str] = []

    def record(self, part: str, case, res: CaseResult, sample_cap=4):
        self.evaluations += 1
        for c in res.classes:
            self.classes[f"{part}:{c}"] += 1
        if res.nontrivial:
            self.classes[f"{part}:NONTRIVIAL"] += 1
            h = case_hash([part, case])
            if h not in self.nontrivial:
                self.nontrivial.add(h)
                if sum(1 for s in self.samples if s.get("part") == part) < sample_cap:
                    self.samples.append({"part": part, "case": abbreviate(case)})

    def merge(self, other: "Stats"):
        self.evaluations += other.evaluations
        self.nontrivial |= other.nontrivial
        self.classes.update(other.classes)
        self.known_hits.update(other.known_hits)
        self.violations.extend(other.violations)
        self.notes.extend(other.notes)
        have = Counter(s.get("part") for s in self.samples)
        for s in other.samples:
            if have[s.get("part")] < 4:
                self.samples.append(s)
                have[s.get("part")] += 1


def abbreviate(o, maxlen=12, depth=0):
    """Shorten a case for the evidence file."""
    import numpy as np

    if isinstance(o, np.ndarray):
        o = o.tolist()
    if isinstance(o, dict):
        return {str(k): abbreviate(v, maxlen, depth + 1) for k, v in o.items()}
    if isinstance(o, (list, tuple)):
        if len(o) > maxlen:
            return [abbreviate(v, maxlen, depth + 1) for v in o[:maxlen]] + [
                f"... ({len(o)} items)"
            ]
        return [abbreviate(v, maxlen, depth + 1) for v in o]
    if isinstance(o, float):
        return float(f"{o:.6g}") if o == o and abs(o) != float("inf") else repr(o)
    if isinstance(o, (str, int, bool)) or o is None:
        return o
    return jdefault(o)


# ---------------------------------------------------------------------------
# Known findings
# ---------------------------------------------------------------------------


def load_known(pid: str) -> list[dict]:
    if not KNOWN_FILE.exists():
        return []
    data = json.loads(KNOWN_FILE.read_text())
    return [e for e in data.get("findings", []) if e["property"] == pid]


def known_sigs(pid: str) -> set[str]:
    return {e["signature"] for e in load_known(pid) if e.get("status") == "known"}


# ---------------------------------------------------------------------------
# Hypothesis driver (runs inside a worker)
# ---------------------------------------------------------------------------


class _Violation(Exception):
    pass


def drive(part, strategy, oracle, n, seed, stats: Stats, known=frozenset(), shrink=True):
    """Run `oracle(case) -> CaseResult` over `n` generated cases.

    A violation whose signature is in `known` is counted, not raised.  The first
    unknown violation is shrunk by Hypothesis; its minimal case is recorded.
    Exceptions escaping the oracle are harness errors.
    """
    from hypothesis import HealthCheck, Phase, given, settings
    from hypothesis import seed as hseed

    last = {}
    budget = float(os.environ.get("VERIF_SHRINK_S", "45" if os.environ.get("VERIF_TIER", "quick") == "quick" else "240"))

    def body(case):
        if "t0" in last and time.time() - last["t0"] > budget:
            return  # shrink budget used up: let Hypothesis wind down, keep the best case found
        res = oracle(case)
        stats.record(part, case, res)
        unknown = []
        for v in res.violations:
            if v["sig"] in known:
                stats.known_hits[v["sig"]] += 1
            else:
                unknown.append(v)
        if unknown:
            last.setdefault("t0", time.time())
            last["case"] = case
            last["v"] = unknown
            raise _Violation(unknown[0]["sig"])

    phases = [Phase.generate, Phase.shrink] if shrink else [Phase.generate]
    test = given(strategy)(body)
    test = settings(
        max_examples=n,
        database=None,
        deadline=None,
        derandomize=False,
        report_multiple_bugs=False,
        phases=phases,
        suppress_health_check=[HealthCheck.too_slow, HealthCheck.data_too_large,
                               HealthCheck.large_base_example],
        print_blob=False,
    )(test)
    test = hseed(seed)(test)
    try:
        test()
    except Exception as e:  # noqa: BLE001
        if "v" not in last:
            raise
        if not isinstance(e, _Violation) and "lak" not in type(e).__name__:
            raise
        v = last["v"][0]
        stats.violations.append(
            {"part": part, "sig": v["sig"], "msg": v["msg"], "case": last["case"],
             "all": last["v"][:5]}
        )
    return stats


def enumerate_cases(part, cases, oracle, stats: Stats, known=frozenset(), stop_after=3):
    """Run the oracle over an explicit list of cases (enumeration)."""
    seen = set()
    for case in cases:
        res = oracle(case)
        stats.record(part, case, res)
        for v in res.violations:
            if v["sig"] in known:
                stats.known_hits[v["sig"]] += 1
            elif v["sig"] not in seen and len(seen) < stop_after:
                seen.add(v["sig"])
                stats.violations.append(
                    {"part": part, "sig": v["sig"], "msg": v["msg"], "case": case}
                )
    return stats


# ---------------------------------------------------------------------------
# Sharding
# ---------------------------------------------------------------------------


def _call(job):
    fn, args = job
    try:
        return ("ok", fn(*args))
    except BaseException:  # noqa: BLE001
        return ("err", traceback.format_exc())


def pmap(fn, arglist, workers=None):
    """Run fn(*args) for each args in arglist in forked workers; returns results."""
    workers = workers or NWORKERS
    jobs = [(fn, a) for a in arglist]
    if workers <= 1 or len(jobs) <= 1:
        out = [_call(j) for j in jobs]
    else:
        ctx = multiprocessing.get_context("fork")
        with ctx.Pool(min(workers, len(jobs)), maxtasksperchild=1) as pool:  # fresh fork per job: no state leaks between jobs
            out = pool.map(_call, jobs, chunksize=1)
    res = []
    for status, val in out:
        if status == "err":
            raise HarnessError("worker failed:\n" + val)
        res.append(val)
    return res


def split(n, k):
    """Split n examples into k nearly equal positive parts."""
    k = max(1, min(k, n))
    base, rem = divmod(n, k)
    return [base + (1 if i < rem else 0) for i in range(k)]


# ---------------------------------------------------------------------------
# Context and top-level runner
# ---------------------------------------------------------------------------


class Ctx:
    def __init__(self, pid, tier, seed):
        self.pid = pid
        self.tier = tier
        self.seed = seed
        self.quick = tier == "quick"
        self.known = load_known(pid)
        self.known_sigs = frozenset(
            e["signature"] for e in self.known if e.get("status") == "known"
        )

    def n(self, quick, thorough):
        return quick if self.quick else thorough


def write_evidence(pid, tier, seed, level, stats: Stats, rule, wall, extra=None,
                   assumptions=None, exhaustive=None):
    EVIDENCE.mkdir(parents=True, exist_ok=True)
    cov = {
        "evaluations": int(stats.evaluations),
        "distinct_nontrivial": len(stats.nontrivial),
        "rule": rule,
        "samples": stats.samples[:12] or [{"note": "no non-trivial case recorded"}],
        "classes": dict(sorted(stats.classes.items())),
        "excluded_or_matched_known_finding": dict(stats.known_hits),
    }
    if exhaustive is not None:
        cov["exhaustive"] = bool(exhaustive)
    if stats.notes:
        cov["notes"] = sorted(set(stats.notes))[:20]
    if extra:
        cov.update(extra)
    ev = {
        "property_id": pid,
        "tier": tier,
        "seed": int(seed),
        "level": level,
        "coverage": cov,
        "assumptions": assumptions or [],
        "wall_s": round(wall, 2),
        "violations": len(stats.violations),
    }
    path = EVIDENCE / f"{pid}.json"
    path.write_text(jdump(ev, indent=1) + "\n")
    try:
        import jsonschema  # type: ignore

        schema = json.loads(Path("/root/.vp/EVIDENCE.schema.json").read_text())
        jsonschema.validate(json.loads(path.read_text()), schema)
    except ImportError:
        pass
    except FileNotFoundError:
        pass
    return path


def write_replay(pid, v) -> Path:
    d = REPLAYS / pid
    d.mkdir(parents=True, exist_ok=True)
    body = {"property": pid, "part": v["part"], "sig": v["sig"], "msg": v["msg"],
            "case": v["case"]}
    p = d / f"{v['part']}-{case_hash(v['case'])}.json"
    p.write_text(jdump(body, indent=1) + "\n")
    return p


def out(*a, **kw):
    """print that survives a closed pipe (./check ... | head): the verdict is the exit code."""
    try:
        print(*a, **kw)
        (kw.get("file") or sys.stdout).flush()
    except BrokenPipeError:
        try:
            sys.stdout = open(os.devnull, "w")  # noqa: SIM115
        except OSError:
            pass


def run_check(mod, argv=None):
    """Top-level entry: runs a check module and honours the exit-code contract."""
    import argparse

    ap = argparse.ArgumentParser()
    ap.add_argument("--tier", default=os.environ.get("VERIF_TIER", "quick"))
    ap.add_argument("--replay", default=None)
    ap.add_argument("--seed", type=int, default=None)
    args = ap.parse_args(argv)
    tier = args.tier if args.tier in ("quick", "thorough") else "quick"
    os.environ["VERIF_TIER"] = tier  # read by the shrink budget in worker processes
    seed = args.seed if args.seed is not None else int(os.environ.get("VERIF_SEED", "1") or 1)
    pid = mod.PID
    ctx = Ctx(pid, tier, seed)
    t0 = time.time()
    try:
        if args.replay:
            body = json.loads(Path(args.replay).read_text())
            res = mod.replay(body["part"], body["case"])
            bad = [v for v in res.violations]
            if bad:
                out(f"replay: still violating: {bad[0]['sig']}: {bad[0]['msg']}")
                out(f"VIOLATION property={pid} replay={args.replay}")
                return 1
            out("replay: case passes")
            return 0

        # 1. stored replays of known findings -> KNOWN-FINDING lines
        known_lines = []
        for e in ctx.known:
            if e.get("status") != "known":
                continue
            rp = VERIF / e["replay"]
            body = json.loads(rp.read_text())
            res = mod.replay(body["part"], body["case"])
            if any(v["sig"] == e["signature"] for v in res.violations):
                known_lines.append(f"KNOWN-FINDING: property={pid} {e['what']}")
            else:
                out(f"note: known finding '{e['signature']}' no longer reproduces "
                      f"from its stored replay ({e['replay']})")
        # 2. the search itself
        stats, meta = mod.run(ctx)
        wall = time.time() - t0
        write_evidence(pid, tier, seed, mod.LEVEL, stats, meta["rule"], wall,
                       extra=meta.get("extra"), assumptions=meta.get("assumptions"),
                       exhaustive=meta.get("exhaustive"))
        for line in known_lines:
            out(line)
        out(f"{pid} tier={tier} seed={seed} evaluations={stats.evaluations} "
              f"distinct_nontrivial={len(stats.nontrivial)} wall={wall:.1f}s "
              f"violations={len(stats.violations)}")
        for k, c in sorted(stats.classes.items()):
            out(f"   class {k}: {c}")
        if stats.known_hits:
            out(f"   matched known findings: {dict(stats.known_hits)}")
        if stats.violations:
            seen = set()
            for v in stats.violations:
                key = (v["part"], v["sig"])
                if key in seen:
                    continue
                seen.add(key)
                p = write_replay(pid, v)
                out(f"violation part={v['part']} sig={v['sig']}: {v['msg']}")
                out(f"VIOLATION property={pid} replay={p}")
            return 1
        if stats.evaluations == 0 or len(stats.nontrivial) < 2:
            raise HarnessError("vacuous run: no non-trivial cases")
        return 0
    except HarnessError as e:
        out(f"HARNESS ERROR in {pid}: {e}", file=sys.stderr)
        return 2
    except Exception:  # noqa: BLE001
        out(f"HARNESS ERROR in {pid}:\n{traceback.format_exc()}", file=sys.stderr)
        return 2
