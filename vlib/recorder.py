"""In-memory log shared between the harness and the plug-in modules it writes.

Plug-ins loaded by ladim (by file path) do `from vlib import recorder` and append.
"""

LOG: list = []
PARAMS: dict = {}


def reset():
    LOG.clear()


def take():
    out = list(LOG)
    LOG.clear()
    return out


def add(*item):
    LOG.append(item)
