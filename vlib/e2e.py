"""End-to-end helpers: write configuration, run ladim.main.main in-process, read output."""

from __future__ import annotations

import contextlib
import logging
import os
import shutil
import tempfile
import traceback
from pathlib import Path

import numpy as np
import yaml
from netCDF4 import Dataset

from . import recorder

_quiet_done = False


def quiet():
    """Make ladim's logging silent (root has a handler so basicConfig is a no-op)."""
    global _quiet_done
    if _quiet_done:
        return
    root = logging.getLogger()
    if not root.handlers:
        root.addHandler(logging.NullHandler())
    root.setLevel(logging.CRITICAL + 10)
    logging.disable(logging.CRITICAL)
    import warnings

    warnings.filterwarnings("ignore")
    _quiet_done = True


@contextlib.contextmanager
def workdir(prefix="ladimv_"):
    base = os.environ.get("VERIF_SCRATCH")
    if not base:
        base = "/dev/shm" if os.access("/dev/shm", os.W_OK) else tempfile.gettempdir()
    d = Path(tempfile.mkdtemp(prefix=prefix, dir=base))
    try:
        yield d
    finally:
        shutil.rmtree(d, ignore_errors=True)


def iso(t) -> str:
    return str(np.datetime64(t, "s"))


def outvar(datatype="f8", **attrs):
    return {"encoding": {"datatype": datatype}, "attributes": dict(attrs)}


def base_conf(d: Path, start, stop, dt, forcing, release_file, out="out.nc",
              advection="EF", period=None, numrec=0, layout="sparse", reverse=False,
              reference=None, ivars=("pid", "X", "Y", "Z"), dtype="f8", grid=None):
    conf = {
        "version": 2,
        "time": {"start": iso(start), "stop": iso(stop), "dt": int(dt)},
        "grid": {"module": "ladim.ROMS"},
        "forcing": {"module": "ladim.ROMS", "filename": str(forcing)},
        "state": {},
        "tracker": {"advection": advection},
        "release": {"release_file": str(release_file)},
        "output": {
            "filename": str(d / out),
            "output_period": int(period if period is not None else dt),
            "layout": layout,
            "instance_variables": {
                v: outvar("i4" if v == "pid" else dtype) for v in ivars
            },
        },
    }
    if numrec:
        conf["output"]["numrec"] = int(numrec)
    if reverse:
        conf["time"]["time_reversal"] = True
    if reference is not None:
        conf["time"]["reference"] = iso(reference)
    if grid:
        conf["grid"].update(grid)
    return conf


def write_yaml(conf, path):
    with open(path, "w", encoding="utf-8") as f:
        yaml.safe_dump(conf, f, sort_keys=False)
    return path


def write_release(path, rows, columns, header=True):
    """rows: list of lists (already strings or numbers), columns: names."""
    with open(path, "w", encoding="utf-8") as f:
        if header:
            f.write(" ".join(columns) + "\n")
        for r in rows:
            f.write(" ".join(str(x) for x in r) + "\n")
    return path


_update_counter = {"n": 0}
RNG_SEED = {"v": 20240917}
_patched = False


def _patch_model():
    global _patched
    if _patched:
        return
    import ladim.model

    orig = ladim.model.Model.update

    def update(self):
        _update_counter["n"] += 1
        return orig(self)

    ladim.model.Model.update = update

    # The stock Tracker seeds its generator from the OS; every end-to-end run of the harness gets a
    # generator seeded from RNG_SEED instead, so that a run is a pure function of the scenario.
    import ladim.tracker

    tinit = ladim.tracker.Tracker.__init__

    def tracker_init(self, *a, **kw):
        tinit(self, *a, **kw)
        if hasattr(self, "rng"):
            self.rng = np.random.default_rng(RNG_SEED["v"])

    ladim.tracker.Tracker.__init__ = tracker_init
    _patched = True


def run_main(conf_path, cwd=None, rng_seed=20240917):
    """Run ladim.main.main(conf_path) in-process.

    Returns dict(status = 'ok' | 'exit' | 'exc', exc = repr, tb = text, updates = int)
    """
    quiet()
    _patch_model()
    from ladim.main import main

    _update_counter["n"] = 0
    RNG_SEED["v"] = int(rng_seed)
    recorder.reset()
    old = os.getcwd()
    if cwd:
        os.chdir(cwd)
    out = {"status": "ok", "exc": None, "tb": None}
    try:
        main(str(conf_path), loglevel=logging.CRITICAL)
    except SystemExit as e:
        out.update(status="exit", exc=f"SystemExit({e.code})", tb=traceback.format_exc())
    except Exception as e:  # noqa: BLE001
        out.update(status="exc", exc=f"{type(e).__name__}: {e}", tb=traceback.format_exc())
    finally:
        os.chdir(old)
    if out["status"] != "ok":
        _close_leaked()
    out["updates"] = _update_counter["n"]
    out["log"] = recorder.take()
    return out


def _close_leaked():
    """Close netCDF datasets left open by an aborted run (so files can be re-read)."""
    import gc

    for o in gc.get_objects():
        try:
            if isinstance(o, Dataset) and o.isopen():
                o.close()
        except Exception:  # noqa: BLE001,S110
            pass


# ---------------------------------------------------------------------------
# Reading output by the documented recipe
# ---------------------------------------------------------------------------


def read_sparse(path):
    """Read a ragged LADiM file exactly as the documentation prescribes."""
    with Dataset(path) as nc:
        nc.set_auto_mask(False)
        tv = nc.variables["time"]
        units = tv.units
        ref = np.datetime64(units.split("since")[1].strip(), "s")
        tvals = np.asarray(tv[:], float)
        pc = np.asarray(nc.variables["particle_count"][:]).astype(int)
        nrec = len(tvals)
        inst_names = [n for n, v in nc.variables.items() if v.dimensions == ("particle_instance",)]
        pnames = [n for n, v in nc.variables.items() if v.dimensions == ("particle",)]
        ninst = nc.dimensions["particle_instance"].size
        records = []
        for n in range(nrec):
            start = int(np.sum(pc[:n]))
            count = int(pc[n])
            rec = {name: np.asarray(nc.variables[name][start:start + count]) for name in inst_names}
            records.append(rec)
        pvars = {}
        pattrs = {}
        for name in pnames:
            v = nc.variables[name]
            v.set_auto_mask(True)
            pvars[name] = np.ma.asarray(v[:])
            pattrs[name] = {a: v.getncattr(a) for a in v.ncattrs()}
        attrs = {name: {a: nc.variables[name].getncattr(a) for a in nc.variables[name].ncattrs()}
                 for name in nc.variables}
        gattrs = {a: nc.getncattr(a) for a in nc.ncattrs()}
    return dict(units=units, ref=ref, tvals=tvals,
                times=[ref + np.timedelta64(int(round(t)), "s") for t in tvals],
                count=pc, records=records, pvars=pvars, ninst=ninst, attrs=attrs,
                gattrs=gattrs, npart=len(next(iter(pvars.values()))) if pvars else None)


def read_dense(path):
    with Dataset(path) as nc:
        tv = nc.variables["time"]
        ref = np.datetime64(tv.units.split("since")[1].strip(), "s")
        tvals = np.asarray(tv[:], float)
        inst = {n: np.ma.asarray(v[:]) for n, v in nc.variables.items()
                if v.dimensions == ("time", "particle")}
        pvars = {n: np.ma.asarray(v[:]) for n, v in nc.variables.items()
                 if v.dimensions == ("particle",)}
    return dict(ref=ref, tvals=tvals,
                times=[ref + np.timedelta64(int(round(t)), "s") for t in tvals],
                inst=inst, pvars=pvars)


def list_outputs(d: Path, stem="out"):
    return sorted(p.name for p in Path(d).glob(f"{stem}*.nc"))
