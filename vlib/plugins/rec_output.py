"""Recording output module: snapshots the living part of the state at every write."""
import numpy as np
from ladim.out_netcdf import Output as _Output

from vlib import recorder


class Output(_Output):
    def write(self, state):
        timer = self.modules["time"]
        alive = np.array(state["alive"], bool).copy()
        snap = {v: np.array(state[v])[alive].copy() for v in state.instance_variables}
        pv = {v: np.array(state[v]).copy() for v in state.particle_variables}
        recorder.add("write", int(timer.step), str(timer.time), snap, pv, int(state.npid))
        return super().write(state)
