"""Scripted IBM used by the verification harness (loaded by LADiM by file path).

Parameters (ibm section of the configuration):
  kills:       [[step, tag], ...]  mark the particle with this tag dead at this model step
  deactivate:  [[step, tag], ...]  mark inactive
  lifetime:    kill when age (in steps) reaches this value (0 = off); needs state variable 'age'
  weight:      if true, state['weight'] += 0.01 * state['temp'] each step
  record:      if true, append ('ibm', step, snapshot) to vlib.recorder
"""
import numpy as np

from vlib import recorder


class IBM:
    def __init__(self, modules, **kw):
        self.modules = modules
        self.state = modules["state"]
        self.timer = modules["time"]
        self.kills = {}
        for step, tag in kw.get("kills", []) or []:
            self.kills.setdefault(int(step), []).append(int(tag))
        self.deact = {}
        for step, tag in kw.get("deactivate", []) or []:
            self.deact.setdefault(int(step), []).append(int(tag))
        self.lifetime = int(kw.get("lifetime", 0) or 0)
        self.weight = bool(kw.get("weight", False))
        self.record = bool(kw.get("record", False))
        self.offset = int(kw.get("step_offset", 0) or 0)
        self.closed = 0

    def update(self):
        state = self.state
        step = int(self.timer.step) + self.offset
        if "age" in state.variables:
            state["age"] += 1.0
        if self.weight:
            state["weight"] += 0.01 * state["temp"]
        if self.lifetime and "age" in state.variables:
            state["alive"] &= state["age"] < self.lifetime
        if step in self.kills:
            state["alive"] &= ~np.isin(state["tag"], self.kills[step])
        if step in self.deact:
            state["active"] &= ~np.isin(state["tag"], self.deact[step])
        if self.record:
            snap = {v: np.array(state[v]).copy() for v in state.instance_variables}
            recorder.add("ibm", int(self.timer.step), str(self.timer.time), snap)

    def close(self):
        self.closed += 1
        if self.record:
            recorder.add("ibm_close", self.closed)
