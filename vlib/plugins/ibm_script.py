"""Scripted IBM used by the verification harness (loaded by LADiM by file path).

Parameters (ibm section of the configuration):
  kills:       [[step, tag], ...]  mark the particle with this tag dead at this model step
  deactivate:  [[step, tag], ...]  mark inactive
  lifetime:    kill when age (in steps) reaches this value (0 = off); needs state variable 'age'
  weight:      if true, state['weight'] += 0.01 * state['temp'] each step
  record:      if true, append ('ibm', step, snapshot) to vlib.recorder
  ask_lonlat:  if true, ask the grid for longitude/latitude at the state's positions every step (as an IBM
               with light- or temperature-dependent behaviour would)
  wander:      [dx, dy] added to the positions every step with the in-place idiom state["X"] += dx
"""
import numpy as np

from vlib import recorder


class IBM:
    def __init__(self, modules, **kw):
        self.modules = modules
        self.state = modules["state"]
        self.timer = modules["time"]
        self.kills = {}
        for step, tag in kw.get("kills", []) or []:
            self.kills.setdefault(int(step), []).append(int(tag))
        self.deact = {}
        for step, tag in kw.get("deactivate", []) or []:
            self.deact.setdefault(int(step), []).append(int(tag))
        self.lifetime = int(kw.get("lifetime", 0) or 0)
        self.weight = bool(kw.get("weight", False))
        self.record = bool(kw.get("record", False))
        self.offset = int(kw.get("step_offset", 0) or 0)
        self.ask_lonlat = bool(kw.get("ask_lonlat", False))
        self.wander = kw.get("wander") or None
        self.lonlat = None
        self.closed = 0

    def update(self):
        state = self.state
        step = int(self.timer.step) + self.offset
        if "age" in state.variables:
            state["age"] += 1.0
        if self.weight:
            state["weight"] += 0.01 * state["temp"]
        if self.lifetime and "age" in state.variables:
            state["alive"] &= state["age"] < self.lifetime
        if step in self.kills:
            state["alive"] &= ~np.isin(state["tag"], self.kills[step])
        if step in self.deact:
            state["active"] &= ~np.isin(state["tag"], self.deact[step])
        if self.ask_lonlat and len(state.X):
            self.lonlat = self.modules["grid"].lonlat(state.X, state.Y)
        if self.wander:
            state["X"] += float(self.wander[0])
            state["Y"] += float(self.wander[1])
        if self.record:
            snap = {v: np.array(state[v]).copy() for v in state.instance_variables}
            recorder.add("ibm", int(self.timer.step), str(self.timer.time), snap)

    def close(self):
        self.closed += 1
        if self.record:
            recorder.add("ibm_close", self.closed)
