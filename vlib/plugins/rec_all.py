"""Recording versions of every pluggable LADiM module (any slot can point at this file).

Each class logs ('call', slot, method, step, MARK, extra) to vlib.recorder and delegates to the
stock implementation.  MARK identifies the file the class was loaded from.
"""
import numpy as np

import ladim.out_netcdf
import ladim.release
import ladim.ROMS
import ladim.tracker
from vlib import recorder
from vlib.plugins import ibm_script

MARK = __file__
KIND = "real"


def _step(modules):
    t = modules.get("time") if modules else None
    return int(t.step) if t is not None else None


def _snap(modules, names=("pid", "X", "Y", "alive")):
    st = modules["state"]
    out = {n: np.array(st[n]).copy() for n in names}
    for n in ("temp",):
        if n in st.variables:
            out[n] = np.array(st[n]).copy()
    t = modules.get("time")
    if t is not None:
        out["_time"] = str(t.time)  # what a user module reading the model clock sees inside this call
    return out


class Grid(ladim.ROMS.Grid):
    def __init__(self, **kw):
        recorder.add("call", "grid", "init", None, MARK, KIND)
        super().__init__(**kw)

    def close(self):
        recorder.add("call", "grid", "close", None, MARK, KIND)


class Forcing(ladim.ROMS.Forcing):
    def __init__(self, modules, **kw):
        recorder.add("call", "forcing", "init", None, MARK, KIND)
        super().__init__(modules, **kw)

    def update(self):
        super().update()
        recorder.add("call", "forcing", "update", _step(self.modules), MARK, KIND, _snap(self.modules))

    def close(self):
        recorder.add("call", "forcing", "close", None, MARK, KIND)
        super().close()


class ParticleReleaser(ladim.release.ParticleReleaser):
    def update(self):
        super().update()
        recorder.add("call", "release", "update", _step(self.modules), MARK, KIND, _snap(self.modules))

    def close(self):
        recorder.add("call", "release", "close", None, MARK, KIND)


class Tracker(ladim.tracker.Tracker):
    def update(self):
        recorder.add("call", "tracker", "update", _step(self.modules), MARK, KIND, _snap(self.modules))
        super().update()

    def close(self):
        recorder.add("call", "tracker", "close", None, MARK, KIND)


class Output(ladim.out_netcdf.Output):
    def update(self):
        recorder.add("call", "output", "update", _step(self.modules), MARK, KIND)
        super().update()

    def write(self, state):
        recorder.add("call", "output", "write", _step(self.modules), MARK, KIND, _snap(self.modules))
        super().write(state)

    def close(self):
        recorder.add("call", "output", "close", None, MARK, KIND)
        super().close()


class IBM(ibm_script.IBM):
    def update(self):
        super().update()
        recorder.add("call", "ibm", "update", _step(self.modules), MARK, KIND, _snap(self.modules))

    def close(self):
        recorder.add("call", "ibm", "close", None, MARK, KIND)
