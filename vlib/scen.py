"""Small scenario builders shared by the end-to-end checks."""

from __future__ import annotations

from pathlib import Path

import numpy as np

from . import roms

T0 = np.datetime64("2000-01-02T03:00:00")


def S(n):
    return np.timedelta64(int(n), "s")


def vel_arrays(G, nframes, recipe, seed=0):
    """Velocity frames (T, N, ., .) from a recipe dict.

    kinds: const(u, v) | noise(amp) | shear (depth and position dependent, smooth)
    """
    jm, im, N = G["jmax0"], G["imax0"], G["N"]
    kind = recipe.get("kind", "const")
    U = np.zeros((nframes, N, jm, im - 1))
    V = np.zeros((nframes, N, jm - 1, im))
    if kind == "const":
        U += recipe.get("u", 0.0)
        V += recipe.get("v", 0.0)
    elif kind == "noise":
        rng = np.random.default_rng(seed)
        a = recipe.get("amp", 0.1)
        U = rng.uniform(-a, a, U.shape) + recipe.get("u", 0.0)
        V = rng.uniform(-a, a, V.shape) + recipe.get("v", 0.0)
    elif kind == "shear":
        a = recipe.get("amp", 0.1)
        rng = np.random.default_rng(seed)
        for t in range(nframes):
            ph = rng.uniform(0, 6.28, 4)
            for k in range(N):
                lev = (k + 1.0) / N
                jj, ii = np.mgrid[0:jm, 0:im - 1].astype(float)
                U[t, k] = recipe.get("u", 0.0) + a * lev * np.sin(0.7 * ii + ph[0]) * np.cos(0.5 * jj + ph[1])
                jj, ii = np.mgrid[0:jm - 1, 0:im].astype(float)
                V[t, k] = recipe.get("v", 0.0) + a * lev * np.cos(0.6 * ii + ph[2]) * np.sin(0.8 * jj + ph[3])
    else:
        raise ValueError(kind)
    return U, V


def write_forcing(d: Path, G, frame_times, U, V, partition=None, extra=None, storage="f8",
                  stem="forcing", time_units=None):
    """Write frames into one or several files.  partition: list of frame counts per file.

    Returns (pattern_or_filename, [filenames])
    """
    T = len(frame_times)
    partition = partition or [T]
    assert sum(partition) == T
    files = []
    a = 0
    for n, cnt in enumerate(partition):
        b = a + cnt
        path = Path(d) / f"{stem}_{n:03d}.nc"
        ex = {k: v[a:b] for k, v in (extra or {}).items()}
        roms.write_roms(path, G, frame_times[a:b], U[a:b], V[a:b], extra=ex, storage=storage, time_units=time_units)
        files.append(path)
        a = b
    if len(files) == 1:
        return str(files[0]), files
    return str(Path(d) / f"{stem}_*.nc"), files
