#!/usr/bin/env python3
"""Sensitivity run: apply each planted mutant to a scratch worktree of /repo, run the quick check of the
property it breaks against that tree (VERIF_REPO), remove the worktree.
Usage: python3 tools/mutants.py [-j N] [name-substring ...]

/repo itself is never touched; evidence and replays of these runs go to a scratch directory.
Results are merged into tools/mutants_result.json.
"""
import json
import os
import shutil
import subprocess
import sys
import time
from concurrent.futures import ThreadPoolExecutor
from pathlib import Path

VERIF = Path(__file__).resolve().parent.parent
REPO = Path("/repo")

# (name, property, file, old, new)
M = [
    ("c01_rk4_stage_fraction", "C01", "ladim/tracker.py", "X1, Y1 = RKstep(X, Y, U1, V1, 0.5, dtdx, dtdy)", "X1, Y1 = RKstep(X, Y, U1, V1, 1.0, dtdx, dtdy)"),
    ("c01_rk4_weights", "C01", "ladim/tracker.py", "return (U1 + 2 * U2 + 2 * U3 + U4) / 6.0", "return (U1 + U2 + U3 + U4) / 4.0"),
    ("c01_rk2_fractional_dropped", "C01", "ladim/tracker.py", "return force.velocity(X1, Y1, Z, fractional_step=0.5)", "return force.velocity(X1, Y1, Z)"),
    ("c01_dtdy_dtdx", "C01", "ladim/tracker.py", "Y1 = Y + V * self.dt / self.dy", "Y1 = Y + V * self.dt / self.dx"),
    ("c01_helper_m", "C01", "ladim/analytical.py", "m = 1.0 / (2 * s)", "m = 1.0 / s"),
    ("c01_metric_j0_i0", "C01", "ladim/ROMS.py", "        J = Y.round().astype(int) - self.j0\n\n        # Metric is conform", "        J = Y.round().astype(int) - self.i0\n\n        # Metric is conform"),
    ("c01_metric_dy_separate", "C01", "ladim/ROMS.py", "        A = self.dx[J, I]\n        return A, A", "        return self.dx[J, I], self.dy[I % self.dy.shape[0], J % self.dy.shape[1]]"),
    ("c01_stock_fractional_rk4_last", "C01", "ladim/tracker.py", "U4, V4 = force.velocity(X3, Y3, Z, fractional_step=1.0)", "U4, V4 = force.velocity(X3, Y3, Z, fractional_step=0.5)"),
    ("c02_stagger_swapped", "C02", "ladim/ROMS.py", "sample3D(U, X + 0.5, Y, K, A, method=method),", "sample3D(U, X, Y + 0.5, K, A, method=method),"),
    ("c02_mask_u_one_sided", "C02", "ladim/ROMS.py", "Mu[:, 1:-1] = M[:, :-1] * M[:, 1:]", "Mu[:, 1:-1] = M[:, :-1]"),
    ("c02_weight_complement", "C02", "ladim/ROMS.py", "A[n] = (zr[k] + Z[n]) / (zr[k] - zr[k - 1])", "A[n] = 1 - (zr[k] + Z[n]) / (zr[k] - zr[k - 1])"),
    ("c02_add_offset_dropped", "C02", "ladim/ROMS.py", "F: Field = self.add_offset[name] + self.scale_factor[name] * F0", "F: Field = self.scale_factor[name] * F0"),
    ("c02_pq_swapped", "C02", "ladim/ROMS.py", "p, q = X[n] - i, Y[n] - j", "q, p = X[n] - i, Y[n] - j"),
    ("c03_preroll", "C03", "ladim/ROMS.py", 'self.fields["u"] = self.fields["u"] - (prestep + 1) * self.fields["dU"]', 'self.fields["u"] = self.fields["u"] - prestep * self.fields["dU"]'),
    ("c03_fractional_threshold", "C03", "ladim/ROMS.py", "if fractional_step < 0.001:", "if fractional_step < 0.6:"),
    ("c03_stepdiff_first", "C03", "ladim/ROMS.py", "                stepdiff = self.stepdiff[i]", "                stepdiff = self.stepdiff[0]"),
    ("c03_scalar_next_frame", "C03", "ladim/ROMS.py", "self.fields[name] = self._read_field(name, step)", "self.fields[name] = self._read_field(name, self.steps[min(self.steps.index(step) + 1, len(self.steps) - 1)])"),
    ("c04_no_repeat", "C04", "ladim/release.py", "V0 = V0.repeat(V.mult)", "V0 = V0.repeat(np.minimum(V.mult, 1))"),
    ("c04_ticks_from_start", "C04", "ladim/release.py", "times = np.arange(file_times[0], self.stop_time, np.timedelta64(freq, \"s\"))", "times = np.arange(max(file_times[0], self.start_time) if not self.time_reversal else min(file_times[0], self.start_time), self.stop_time, np.timedelta64(freq, \"s\"))"),
    ("c04_window_start_exclusive", "C04", "ladim/release.py", "self._df = self._df[self._df.index >= self.start_time]", "self._df = self._df[self._df.index > self.start_time]"),
    ("c05_compactify_skips_var", "C05", "ladim/state.py", "            for var in self.instance_variables:\n                self.variables[var] = self.variables[var][alive]", "            for var in self.instance_variables:\n                if var != \"Z\":\n                    self.variables[var] = self.variables[var][alive]"),
    ("c05_npid_reset", "C05", "ladim/state.py", "                self.variables[var] = self.variables[var][alive]", "                self.variables[var] = self.variables[var][alive]\n            self.npid = int(self.variables[\"pid\"].max()) + 1 if n_alive else self.npid"),
    ("c06_count_cumulative", "C06", "ladim/out_netcdf.py", 'self.nc.variables["particle_count"][self.local_record_count] = count', 'self.nc.variables["particle_count"][self.local_record_count] = end'),
    ("c06_time_from_counter", "C06", "ladim/out_netcdf.py", 'self.nc.variables["time"][self.local_record_count] = self.timer.nctime()', 'self.nc.variables["time"][self.local_record_count] = self.nctime'),
    ("c06_pvar_npart", "C06", "ladim/out_netcdf.py", "npart = int(state.npid)  # Total number of particles so far", "npart = len(state)  # Total number of particles so far"),
    ("c07_period_residue", "C07", "ladim/out_netcdf.py", "if step % self.output_period_step == 0:", "if step % self.output_period_step == self.output_period_step - 1:"),
    ("c07_new_file_le", "C07", "ladim/out_netcdf.py", "if self.record_count < self.num_records:", "if self.record_count < self.num_records - 1:"),
    ("c07_filename_width", "C07", "ladim/out_netcdf.py", "number_width = 3", "number_width = 2"),
    ("c08_pstart", "C08", "ladim/warm_start.py", 'pstart = f.variables["particle_count"][:-1].sum()', 'pstart = f.variables["particle_count"][:-2].sum()'),
    ("c08_release_start_rows", "C08", "ladim/release.py", "self._df = self._df[self._df.index > self.start_time]", "self._df = self._df[self._df.index >= self.start_time]"),
    ("c08_npid_from_count", "C08", "ladim/warm_start.py", "state.npid = pid_max", "state.npid = int(pcount)"),
    # the repairs of section 8, items 18 and 19, taken out again: the checks must report the defects' return
    ("c08_warm_flags_not_boolean", "C08", "ladim/warm_start.py", "            values = np.asarray(values).astype(bool)\n", "            values = np.asarray(values)\n"),
    ("c14_bilin_inv_stops_all_together", "C14", "ladim/sample.py", "        todo = H >= tol\n        if not np.any(todo):\n            break\n", "        todo = H >= -1.0\n        if np.all(H < tol):\n            break\n"),
    ("c09_land_cancel_removed", "C09", "ladim/tracker.py", "        X1[onland] = X[onland]\n        Y1[onland] = Y[onland]", "        X1[onland] = X1[onland]\n        Y1[onland] = Y[onland]"),
    ("c09_ingrid_margin", "C09", "ladim/ROMS.py", "            (self.xmin + 0.5 < X)\n            & (X < self.xmax - 0.5)", "            (self.xmin + 0.5 < X)\n            & (X < self.xmax + 0.4)"),
    ("c09_inactive_restore_removed", "C09", "ladim/tracker.py", "        X1[inactive] = X[inactive]\n", "        X1[inactive] = X1[inactive]\n"),
    ("c10_sign_flip_dropped", "C10", "ladim/ROMS.py", "return sample3DUV(-U, -V, X - i0, Y - j0, self.K, self.A, method=method)", "return sample3DUV(U, V, X - i0, Y - j0, self.K, self.A, method=method)"),
    ("c10_release_order", "C10", "ladim/release.py", "self._df.groupby(self._df.index, sort=False)", "self._df.groupby(self._df.index)"),
    ("c10_step2time", "C10", "ladim/timekeeper.py", "            return self.start_time - step * self.dt\n        return self.start_time + step * self.dt\n\n    def time2step", "            return self.start_time + step * self.dt\n        return self.start_time + step * self.dt\n\n    def time2step"),
    ("c11_variance_half", "C11", "ladim/tracker.py", "stddev = (2 * self.D / self.dt) ** 0.5", "stddev = (self.D / self.dt) ** 0.5"),
    ("c11_same_draw", "C11", "ladim/tracker.py", "        V = stddev * self.rng.normal(size=num_particles)\n\n        return U, V", "        V = U.copy()\n\n        return U, V"),
    ("c11_vert_uses_D", "C11", "ladim/tracker.py", "stddev = (2 * self.Dz / self.dt) ** 0.5", "stddev = (2 * self.D / self.dt) ** 0.5"),
    ("c12_w_stagger", "C12", "ladim/ROMS.py", "        S = np.linspace(-1.0, 0.0, N + 1)", "        S = np.linspace(-1.0, 0.0, N + 1) ** 1.0 * (1 - 0.5 / N) - 0.5 / N"),
    ("c12_vtransform2_divisor", "C12", "ladim/ROMS.py", "        B = 1.0 + Hc / H", "        B = 1.0 + 0 * H"),
    ("c12_searchsorted_right", "C12", "ladim/ROMS.py", "k = np.searchsorted(zr, -Z[n])", "k = np.searchsorted(zr, -Z[n]) + (1 if Z[n] > 1e3 else 0)"),
    ("c13_time2step_reversal", "C13", "ladim/timekeeper.py", "return int((self.start_time - np.datetime64(time_)) // self.dt)", "return int((np.datetime64(time_) - self.start_time) // self.dt)"),
    ("c13_regex_anchor", "C13", "ladim/timekeeper.py", 'pattern = r"^PT(\\d+H)?(\\d+M)?(\\d+S)?$"', 'pattern = r"^PT(\\d+H)?(\\d+M)?(\\d+S)?"'),
    ("c13_unit_swap", "C13", "ladim/timekeeper.py", 'unit_table: typing.ClassVar = dict(s="seconds", m="minutes", h="hours", d="days")', 'unit_table: typing.ClassVar = dict(s="seconds", h="minutes", m="hours", d="days")'),
    ("c14_crosstalk_restored", "C14", "ladim/ROMS.py", "        if len(self.K) != len(X):  # Dead particles have been removed since update", "        if False:"),
    ("c15_bottom_reflection", "C15", "ladim/tracker.py", "Z[below_seabed] = 2 * h[below_seabed] - Z[below_seabed]", "Z[below_seabed] = 2.5 * h[below_seabed] - Z[below_seabed]"),
    ("c15_surface_reflection_removed", "C15", "ladim/tracker.py", "            Z[Z < 0] *= -1", "            Z[Z < -0.5] *= -1"),
    ("c15_depth_at_new_position", "C15", "ladim/tracker.py", "            h = grid.depth(X, Y)", "            h = grid.depth(X1, Y1)"),
    ("c16_i0_dropped", "C16", "ladim/ROMS.py", "return X + self.i0, Y + self.j0", "return X + 1, Y + 1"),
    ("c16_sampler_weights", "C16", "ladim/sample.py", "    W01 = (1 - P) * Q\n    W10 = P * (1 - Q)\n    W11 = P * Q\n    SW = 1.0  # Sum of weights", "    W10 = (1 - P) * Q\n    W01 = P * (1 - Q)\n    W11 = P * Q\n    SW = 1.0  # Sum of weights"),
    ("c16_maxiter", "C16", "ladim/sample.py", "    maxiter: int = 7,", "    maxiter: int = 1,"),
    ("c16_outside_zero", "C16", "ladim/sample.py", "    if outside_value is not None:\n        result", "    if outside_value:\n        result"),
    ("c17_clip_margin", "C17", "ladim/tracker.py", "        self.xmax = grid.xmax - 0.01", "        self.xmax = grid.xmax + 0.6"),
    ("c17_ingrid_margin", "C17", "ladim/ROMS.py", "            & (self.ymin + 0.5 < Y)", "            & (self.ymin - 0.6 < Y)"),
    ("c18_v1_frequency", "C18", "ladim/configure.py", '        conf2["release"]["release_frequency"] = config["particle_release"][\n            "release_frequency"\n        ]', '        conf2["release"]["release_frequency"] = 2 * config["numerics"]["dt"]'),
    ("c18_grid_default_last_file", "C18", "ladim/configure.py", "                filename = sorted(flist)[0]", "                filename = sorted(flist)[-1]"),
    ("c18_v1_default_value", "C18", "ladim/configure.py", '        conf2["state"]["default_values"][var] = 0', '        conf2["state"]["default_values"][var] = 1'),
    ("c19_tracker_before_output", "C19", "ladim/model.py", "        if step >= 0:\n            self.output.update()\n\n        # --- Update state to next time step\n        # Improve: no need to update after last write\n        self.tracker.update()", "        self.tracker.update()\n        if step >= 0:\n            self.output.update()\n"),
    ("c19_ibm_twice", "C19", "ladim/model.py", "        self.tracker.update()\n        self.ibm.update()\n\n    def finish", "        self.tracker.update()\n        self.ibm.update()\n        if step == 3:\n            self.ibm.update()\n\n    def finish"),
    ("c19_finish_skips", "C19", "ladim/model.py", 'module_names = ["grid", "forcing", "release", "tracker", "ibm", "output"]', 'module_names = ["grid", "forcing", "release", "ibm", "output"]'),
    ("c19_import_first", "C19", "ladim/model.py", "    if file_name.exists():", "    if file_name.exists() and importlib.util.find_spec(module_name.replace('/', '.')) is None:"),
    ("c20_no_coverage_check", "C20", "ladim/ROMS.py", "    if time1 < timer.max_time:", "    if False:"),
    ("c20_sorted_check", "C20", "ladim/ROMS.py", "    I = all_frames[1:] <= all_frames[:-1]", "    I = all_frames[1:] < all_frames[:-1]"),
    ("c20_subgrid_rim", "C20", "ladim/ROMS.py", "        if (not 1 <= limits[0] < limits[1] <= imax0 - 1) or (", "        if (not 0 <= limits[0] < limits[1] <= imax0 - 1) or ("),
]


SCRATCH = Path(os.environ.get("VERIF_SEED_SCRATCH", "/tmp/verif_seeded"))


def sh(cmd, **kw):
    return subprocess.run(cmd, shell=True, capture_output=True, text=True, **kw)


def run_one(m, workers):
    name, prop, file, old, new = m
    wt = SCRATCH / f"mut_{name}_{os.getpid()}"
    evd = SCRATCH / f"mutev_{name}_{os.getpid()}"
    SCRATCH.mkdir(parents=True, exist_ok=True)
    try:
        r = sh(f"git -C {REPO} worktree add --detach {wt} HEAD")
        if r.returncode:
            return dict(name=name, property=prop, status="worktree_failed: " + r.stderr[-200:])
        p = wt / file
        src = p.read_text()
        if src.count(old) < 1:
            print(f"{name}: PATTERN NOT FOUND", flush=True)
            return dict(name=name, property=prop, status="pattern_not_found")
        p.write_text(src.replace(old, new, 1))
        t0 = time.time()
        env = dict(os.environ, VERIF_REPO=str(wt), VERIF_EVIDENCE_DIR=str(evd), VERIF_REPLAY_DIR=str(evd / "replays"),
                   VERIF_WORKERS=str(workers))
        r = sh(f"cd {VERIF} && ./check {prop} --tier quick", timeout=3000, env=env)
        caught = r.returncode == 1 and "VIOLATION property=" in r.stdout
        sigs = sorted(set(l.split("sig=")[1].split(":")[0] for l in r.stdout.splitlines() if l.startswith("violation ")))
        print(f"{name}: {'CAUGHT' if caught else 'MISSED'} rc={r.returncode} {time.time() - t0:.0f}s {sigs[:4]}", flush=True)
        if r.returncode == 2:
            print(r.stderr[-600:])
        return dict(name=name, property=prop, caught=caught, rc=r.returncode, sigs=sigs, wall=round(time.time() - t0))
    finally:
        sh(f"git -C {REPO} worktree remove --force {wt}")
        shutil.rmtree(wt, ignore_errors=True)
        shutil.rmtree(evd, ignore_errors=True)
        sh(f"git -C {REPO} worktree prune")


def main():
    args = sys.argv[1:]
    jobs = 4
    if args[:1] == ["-j"]:
        jobs = int(args[1])
        args = args[2:]
    todo = [m for m in M if not args or any(a in m[0] for a in args)]
    with ThreadPoolExecutor(jobs) as ex:
        results = list(ex.map(lambda m: run_one(m, max(2, 16 // jobs)), todo))
    out = VERIF / "tools" / "mutants_result.json"
    prev = json.loads(out.read_text()) if out.exists() else []
    names = {r["name"] for r in results}
    out.write_text(json.dumps([r for r in prev if r["name"] not in names] + results, indent=1) + "\n")
    missed = [r["name"] for r in results if not r.get("caught")]
    print(f"{len(results) - len(missed)} of {len(results)} caught; missed: {missed}")
    return 0


if __name__ == "__main__":
    sys.exit(main())
