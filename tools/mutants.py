#!/usr/bin/env python3
"""Sensitivity run: apply each planted mutant to /repo's working tree, run the quick check of the
property it breaks, revert.  Usage: python3 tools/mutants.py [name-substring ...]

Never commits to /repo; always reverts with `git checkout -- .` (also on interrupt).
Results are appended to tools/mutants_result.json.
"""
import json
import subprocess
import sys
import time
from pathlib import Path

VERIF = Path(__file__).resolve().parent.parent
REPO = Path("/repo")

# (name, property, file, old, new)
M = [
    ("c01_rk4_stage_fraction", "C01", "ladim/tracker.py", "X1, Y1 = RKstep(X, Y, U1, V1, 0.5, dtdx, dtdy)", "X1, Y1 = RKstep(X, Y, U1, V1, 1.0, dtdx, dtdy)"),
    ("c01_rk4_weights", "C01", "ladim/tracker.py", "return (U1 + 2 * U2 + 2 * U3 + U4) / 6.0", "return (U1 + U2 + U3 + U4) / 4.0"),
    ("c01_rk2_fractional_dropped", "C01", "ladim/tracker.py", "return force.velocity(X1, Y1, Z, fractional_step=0.5)", "return force.velocity(X1, Y1, Z)"),
    ("c01_dtdy_dtdx", "C01", "ladim/tracker.py", "Y1 = Y + V * self.dt / self.dy", "Y1 = Y + V * self.dt / self.dx"),
    ("c01_helper_m", "C01", "ladim/analytical.py", "m = 1.0 / (2 * s)", "m = 1.0 / s"),
    ("c02_stagger_swapped", "C02", "ladim/ROMS.py", "sample3D(U, X + 0.5, Y, K, A, method=method),", "sample3D(U, X, Y + 0.5, K, A, method=method),"),
    ("c02_mask_u_one_sided", "C02", "ladim/ROMS.py", "Mu[:, 1:-1] = M[:, :-1] * M[:, 1:]", "Mu[:, 1:-1] = M[:, :-1]"),
    ("c02_weight_complement", "C02", "ladim/ROMS.py", "A[n] = (zr[k] + Z[n]) / (zr[k] - zr[k - 1])", "A[n] = 1 - (zr[k] + Z[n]) / (zr[k] - zr[k - 1])"),
    ("c02_add_offset_dropped", "C02", "ladim/ROMS.py", "F: Field = self.add_offset[name] + self.scale_factor[name] * F0", "F: Field = self.scale_factor[name] * F0"),
    ("c02_pq_swapped", "C02", "ladim/ROMS.py", "p, q = X[n] - i, Y[n] - j", "q, p = X[n] - i, Y[n] - j"),
    ("c03_preroll", "C03", "ladim/ROMS.py", 'self.fields["u"] = self.fields["u"] - (prestep + 1) * self.fields["dU"]', 'self.fields["u"] = self.fields["u"] - prestep * self.fields["dU"]'),
    ("c03_fractional_threshold", "C03", "ladim/ROMS.py", "if fractional_step < 0.001:", "if fractional_step < 0.6:"),
    ("c03_stepdiff_first", "C03", "ladim/ROMS.py", "                stepdiff = self.stepdiff[i]", "                stepdiff = self.stepdiff[0]"),
    ("c03_scalar_next_frame", "C03", "ladim/ROMS.py", "self.fields[name] = self._read_field(name, step)", "self.fields[name] = self._read_field(name, self.steps[min(self.steps.index(step) + 1, len(self.steps) - 1)])"),
    ("c04_no_repeat", "C04", "ladim/release.py", "V0 = V0.repeat(V.mult)", "V0 = V0.repeat(np.minimum(V.mult, 1))"),
    ("c04_ticks_from_start", "C04", "ladim/release.py", "times = np.arange(file_times[0], self.stop_time, np.timedelta64(freq, \"s\"))", "times = np.arange(max(file_times[0], self.start_time) if not self.time_reversal else min(file_times[0], self.start_time), self.stop_time, np.timedelta64(freq, \"s\"))"),
    ("c04_window_start_exclusive", "C04", "ladim/release.py", "self._df = self._df[self._df.index >= self.start_time]", "self._df = self._df[self._df.index > self.start_time]"),
    ("c05_compactify_skips_var", "C05", "ladim/state.py", "            for var in self.instance_variables:\n                self.variables[var] = self.variables[var][alive]", "            for var in self.instance_variables:\n                if var != \"Z\":\n                    self.variables[var] = self.variables[var][alive]"),
    ("c05_npid_reset", "C05", "ladim/state.py", "                self.variables[var] = self.variables[var][alive]", "                self.variables[var] = self.variables[var][alive]\n            self.npid = int(self.variables[\"pid\"].max()) + 1 if n_alive else self.npid"),
    ("c06_count_cumulative", "C06", "ladim/out_netcdf.py", 'self.nc.variables["particle_count"][self.local_record_count] = count', 'self.nc.variables["particle_count"][self.local_record_count] = end'),
    ("c06_time_from_counter", "C06", "ladim/out_netcdf.py", 'self.nc.variables["time"][self.local_record_count] = self.timer.nctime()', 'self.nc.variables["time"][self.local_record_count] = self.nctime'),
    ("c06_pvar_npart", "C06", "ladim/out_netcdf.py", "npart = int(state.npid)  # Total number of particles so far", "npart = len(state)  # Total number of particles so far"),
    ("c07_period_residue", "C07", "ladim/out_netcdf.py", "if step % self.output_period_step == 0:", "if step % self.output_period_step == self.output_period_step - 1:"),
    ("c07_new_file_le", "C07", "ladim/out_netcdf.py", "if self.record_count < self.num_records:", "if self.record_count < self.num_records - 1:"),
    ("c07_filename_width", "C07", "ladim/out_netcdf.py", "number_width = 3", "number_width = 2"),
    ("c08_pstart", "C08", "ladim/warm_start.py", 'pstart = f.variables["particle_count"][:-1].sum()', 'pstart = f.variables["particle_count"][:-2].sum()'),
    ("c08_release_start_rows", "C08", "ladim/release.py", "self._df = self._df[self._df.index > self.start_time]", "self._df = self._df[self._df.index >= self.start_time]"),
    ("c08_npid_from_count", "C08", "ladim/warm_start.py", "state.npid = pid_max", "state.npid = int(pcount)"),
    ("c09_land_cancel_removed", "C09", "ladim/tracker.py", "        X1[onland] = X[onland]\n        Y1[onland] = Y[onland]", "        X1[onland] = X1[onland]\n        Y1[onland] = Y[onland]"),
    ("c09_ingrid_margin", "C09", "ladim/ROMS.py", "            (self.xmin + 0.5 < X)\n            & (X < self.xmax - 0.5)", "            (self.xmin + 0.5 < X)\n            & (X < self.xmax + 0.4)"),
    ("c09_inactive_restore_removed", "C09", "ladim/tracker.py", "        X1[inactive] = X[inactive]\n", "        X1[inactive] = X1[inactive]\n"),
    ("c10_sign_flip_dropped", "C10", "ladim/ROMS.py", "return sample3DUV(-U, -V, X - i0, Y - j0, self.K, self.A, method=method)", "return sample3DUV(U, V, X - i0, Y - j0, self.K, self.A, method=method)"),
    ("c10_release_order", "C10", "ladim/release.py", "self._df.groupby(self._df.index, sort=False)", "self._df.groupby(self._df.index)"),
    ("c10_step2time", "C10", "ladim/timekeeper.py", "            return self.start_time - step * self.dt\n        return self.start_time + step * self.dt\n\n    def time2step", "            return self.start_time + step * self.dt\n        return self.start_time + step * self.dt\n\n    def time2step"),
    ("c11_variance_half", "C11", "ladim/tracker.py", "stddev = (2 * self.D / self.dt) ** 0.5", "stddev = (self.D / self.dt) ** 0.5"),
    ("c11_same_draw", "C11", "ladim/tracker.py", "        V = stddev * self.rng.normal(size=num_particles)\n\n        return U, V", "        V = U.copy()\n\n        return U, V"),
    ("c11_vert_uses_D", "C11", "ladim/tracker.py", "stddev = (2 * self.Dz / self.dt) ** 0.5", "stddev = (2 * self.D / self.dt) ** 0.5"),
    ("c12_w_stagger", "C12", "ladim/ROMS.py", "        S = np.linspace(-1.0, 0.0, N + 1)", "        S = np.linspace(-1.0, 0.0, N + 1) ** 1.0 * (1 - 0.5 / N) - 0.5 / N"),
    ("c12_vtransform2_divisor", "C12", "ladim/ROMS.py", "        B = 1.0 + Hc / H", "        B = 1.0 + 0 * H"),
    ("c12_searchsorted_right", "C12", "ladim/ROMS.py", "k = np.searchsorted(zr, -Z[n])", "k = np.searchsorted(zr, -Z[n]) + (1 if Z[n] > 1e3 else 0)"),
    ("c13_time2step_reversal", "C13", "ladim/timekeeper.py", "return int((self.start_time - np.datetime64(time_)) // self.dt)", "return int((np.datetime64(time_) - self.start_time) // self.dt)"),
    ("c13_regex_anchor", "C13", "ladim/timekeeper.py", 'pattern = r"^PT(\\d+H)?(\\d+M)?(\\d+S)?$"', 'pattern = r"^PT(\\d+H)?(\\d+M)?(\\d+S)?"'),
    ("c13_unit_swap", "C13", "ladim/timekeeper.py", 'unit_table: typing.ClassVar = dict(s="seconds", m="minutes", h="hours", d="days")', 'unit_table: typing.ClassVar = dict(s="seconds", h="minutes", m="hours", d="days")'),
    ("c14_crosstalk_restored", "C14", "ladim/ROMS.py", "        if len(self.K) != len(X):  # Dead particles have been removed since update", "        if False:"),
    ("c15_bottom_reflection", "C15", "ladim/tracker.py", "Z[below_seabed] = 2 * h[below_seabed] - Z[below_seabed]", "Z[below_seabed] = 2.5 * h[below_seabed] - Z[below_seabed]"),
    ("c15_surface_reflection_removed", "C15", "ladim/tracker.py", "            Z[Z < 0] *= -1", "            Z[Z < -0.5] *= -1"),
    ("c15_depth_at_new_position", "C15", "ladim/tracker.py", "            h = grid.depth(X, Y)", "            h = grid.depth(X1, Y1)"),
    ("c16_i0_dropped", "C16", "ladim/ROMS.py", "return X + self.i0, Y + self.j0", "return X + 1, Y + 1"),
    ("c16_sampler_weights", "C16", "ladim/sample.py", "    W01 = (1 - P) * Q\n    W10 = P * (1 - Q)\n    W11 = P * Q\n    SW = 1.0  # Sum of weights", "    W10 = (1 - P) * Q\n    W01 = P * (1 - Q)\n    W11 = P * Q\n    SW = 1.0  # Sum of weights"),
    ("c16_maxiter", "C16", "ladim/sample.py", "    maxiter: int = 7,", "    maxiter: int = 1,"),
    ("c16_outside_zero", "C16", "ladim/sample.py", "    if outside_value is not None:\n        result", "    if outside_value:\n        result"),
    ("c17_clip_margin", "C17", "ladim/tracker.py", "        self.xmax = grid.xmax - 0.01", "        self.xmax = grid.xmax + 0.6"),
    ("c17_ingrid_margin", "C17", "ladim/ROMS.py", "            & (self.ymin + 0.5 < Y)", "            & (self.ymin - 0.6 < Y)"),
    ("c18_v1_frequency", "C18", "ladim/configure.py", '        conf2["release"]["release_frequency"] = config["particle_release"][\n            "release_frequency"\n        ]', '        conf2["release"]["release_frequency"] = 2 * config["numerics"]["dt"]'),
    ("c18_grid_default_last_file", "C18", "ladim/configure.py", "                filename = sorted(flist)[0]", "                filename = sorted(flist)[-1]"),
    ("c18_v1_default_value", "C18", "ladim/configure.py", '        conf2["state"]["default_values"][var] = 0', '        conf2["state"]["default_values"][var] = 1'),
    ("c19_tracker_before_output", "C19", "ladim/model.py", "        if step >= 0:\n            self.output.update()\n\n        # --- Update state to next time step\n        # Improve: no need to update after last write\n        self.tracker.update()", "        self.tracker.update()\n        if step >= 0:\n            self.output.update()\n"),
    ("c19_ibm_twice", "C19", "ladim/model.py", "        self.tracker.update()\n        self.ibm.update()\n\n    def finish", "        self.tracker.update()\n        self.ibm.update()\n        if step == 3:\n            self.ibm.update()\n\n    def finish"),
    ("c19_finish_skips", "C19", "ladim/model.py", 'module_names = ["grid", "forcing", "release", "tracker", "ibm", "output"]', 'module_names = ["grid", "forcing", "release", "ibm", "output"]'),
    ("c19_import_first", "C19", "ladim/model.py", "    if file_name.exists():", "    if file_name.exists() and importlib.util.find_spec(module_name.replace('/', '.')) is None:"),
    ("c20_no_coverage_check", "C20", "ladim/ROMS.py", "    if time1 < timer.max_time:", "    if False:"),
    ("c20_sorted_check", "C20", "ladim/ROMS.py", "    I = all_frames[1:] <= all_frames[:-1]", "    I = all_frames[1:] < all_frames[:-1]"),
    ("c20_subgrid_rim", "C20", "ladim/ROMS.py", "        if (not 1 <= limits[0] < limits[1] <= imax0 - 1) or (", "        if (not 0 <= limits[0] < limits[1] <= imax0 - 1) or ("),
]


def sh(cmd, **kw):
    return subprocess.run(cmd, shell=True, capture_output=True, text=True, **kw)


def main():
    sel = sys.argv[1:]
    if sh("git -C /repo status --porcelain").stdout.strip():
        print("refusing: /repo working tree is not clean")
        return 2
    results = []
    try:
        for name, prop, file, old, new in M:
            if sel and not any(s in name for s in sel):
                continue
            p = REPO / file
            src = p.read_text()
            if src.count(old) < 1:
                print(f"{name}: PATTERN NOT FOUND")
                results.append(dict(name=name, property=prop, status="pattern_not_found"))
                continue
            p.write_text(src.replace(old, new, 1))
            t0 = time.time()
            r = sh(f"cd {VERIF} && ./check {prop} --tier quick", timeout=1500)
            p.write_text(src)
            caught = r.returncode == 1 and "VIOLATION property=" in r.stdout
            sigs = sorted(set(l.split("sig=")[1].split(":")[0] for l in r.stdout.splitlines() if l.startswith("violation ")))
            print(f"{name}: {'CAUGHT' if caught else 'MISSED'} rc={r.returncode} {time.time() - t0:.0f}s {sigs[:4]}")
            if r.returncode == 2:
                print(r.stderr[-600:])
            results.append(dict(name=name, property=prop, caught=caught, rc=r.returncode, sigs=sigs, wall=round(time.time() - t0)))
    finally:
        sh("git -C /repo checkout -- .")
    out = VERIF / "tools" / "mutants_result.json"
    prev = json.loads(out.read_text()) if out.exists() else []
    names = {r["name"] for r in results}
    out.write_text(json.dumps([r for r in prev if r["name"] not in names] + results, indent=1) + "\n")
    return 0


if __name__ == "__main__":
    sys.exit(main())
