#!/usr/bin/env python3
"""Regenerates /verif/MANIFEST.json from the table below (python3 tools/manifest.py)."""
import json
from pathlib import Path

VERIF = Path(__file__).resolve().parent.parent
ALL = [f"C{n:02d}" for n in range(1, 21)]

# id -> (category, technique, text, note, design_ref)
CHECKS = {
    "C07": ("exploration",
            "exhaustive enumeration of (nsteps, period, numrec, layout, pvar, direction, file name) against predicted record schedule; split == unsplit differential",
            "Every tuple in the stated box is run end to end through ladim.main and compared with the predicted file names, per-file record counts and record times, and the split run with the unsplit run. Complete inside the box (quick: nsteps<=9, period<=3, numrec<=3; thorough: 14/5/4), nothing outside it.",
            "Constant velocity, two particles, dt=60 s; netCDF4 is trusted to read back what was written.",
            "DESIGN.md section 3 C07"),
}

def main():
    checks = []
    for pid in ALL:
        if pid not in CHECKS:
            continue
        cat, tech, text, note, ref = CHECKS[pid]
        checks.append({
            "property_id": pid,
            "quick_cmd": f"./check {pid} --tier quick",
            "thorough_cmd": f"./check {pid} --tier thorough",
            "evidence_file": f"/verif/evidence/{pid}.json",
            "replay_cmd_template": f"./check {pid} --replay {{path}}",
            "engine": "hypothesis-harness",
            "level_claimed": {"category": cat, "text": text, "design_ref": ref},
            "level_note": note,
            "technique": tech,
        })
    man = {
        "version": 1,
        "setup_cmd": "/venv/bin/python -c 'import hypothesis' 2>/dev/null || /venv/bin/pip install --no-index --find-links /opt/veriftools/wheels hypothesis; /venv/bin/python -c 'import hypothesis, ladim, netCDF4, numba'",
        "hooks": {
            "guard": "LADIM2_VERIF",
            "enable": "No source hooks are needed: checks import /repo/ladim (editable install) and observe it through LADiM's own plug-in mechanism and in-process wrappers. The check runner sets LADIM2_VERIF=1 (reserved, unused by the repository).",
            "baseline_off_cmd": "cd /repo && /venv/bin/python -m pytest -ra -q -p no:cacheprovider --timeout=900 --continue-on-collection-errors",
            "source_commits": [],
            "add_only": True,
        },
        "engines": [{
            "name": "hypothesis-harness",
            "path": "/verif/check",
            "serves_properties": [c["property_id"] for c in checks],
            "kind_free_text": "Hypothesis-driven generated-input search (given / stateful / explicit enumeration) with independent reference models, sharded over 16 forked workers; /verif/vlib",
        }],
        "checks": checks,
        "not_applicable": [
            {"property_id": pid, "reason": "check not built yet in this round (planned in DESIGN.md section 3); not claimed"}
            for pid in ALL if pid not in CHECKS
        ],
        "notes": "All checks: ./check <ID> --tier quick|thorough; seed from VERIF_SEED; exit 0 held, 1 VIOLATION, 2 harness error. Known findings in /verif/known_findings.json.",
    }
    (VERIF / "MANIFEST.json").write_text(json.dumps(man, indent=1) + "\n")
    try:
        import jsonschema
        jsonschema.validate(man, json.loads(Path("/root/.vp/MANIFEST.schema.json").read_text()))
        print("manifest valid;", len(checks), "checks")
    except ImportError:
        print("written (jsonschema not available)")

if __name__ == "__main__":
    main()
