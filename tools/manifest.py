#!/usr/bin/env python3
"""Regenerates /verif/MANIFEST.json from the table below (python3 tools/manifest.py)."""
import json
from pathlib import Path

VERIF = Path(__file__).resolve().parent.parent
ALL = [f"C{n:02d}" for n in range(1, 21)]

# id -> (category, technique, text, note, design_ref)
CHECKS = {
    "C07": ("exploration",
            "exhaustive enumeration of (nsteps, period, numrec, layout, pvar, direction, file name) against predicted record schedule; split == unsplit differential",
            "Every tuple in the stated box is run end to end through ladim.main and compared with the predicted file names, per-file record counts and record times, and the split run with the unsplit run. Complete inside the box (quick: nsteps<=9, period<=3, numrec<=3; thorough: 14/5/4) x four file-name prototypes (out.nc, out_07.nc, out_0000.nc, out_2000_00.nc), plus the same box with the stop time between two steps for out.nc; nothing outside it.",
            "Constant velocity, two particles, dt=60 s; netCDF4 is trusted to read back what was written.",
            "DESIGN.md section 3 C07"),
    "C01": ("exploration",
            "Hypothesis-generated analytic velocity fields, metrics and time steps; differential of Tracker.update against independent EF/RK2/RK4 references (one step, 1e-9 cell) + observed order of convergence vs a 64x finer reference",
            "The real Tracker is driven with a plug-in analytic forcing (steady and time-dependent fields, dx != dy, dt 1 s..1 day, displacements up to 0.95 cell) and its one-step result compared with the scheme's prescription incl. the fractional times requested; trajectories at n, 2n, 4n steps must show order >= k-0.5; the analytic helpers get_velocity1/2/4 get the same two oracles. Part 'stock' drives Tracker + the stock ROMS Forcing + the stock ROMS Grid from generated files (fields linear in x and y times a factor piecewise linear in time with its kinks at the frames, over one to four frame intervals of 1-4 steps each, the run starting at or after the first frame, metric varying by cell, subgrids, forward and reversed, optionally a current that varies with depth with particles at different depths and a quarter of the particles switched off; frames in one or several files, optionally a scalar field read along) and applies the same one-step identity.",
            "Uniform metric per case via a plug-in grid (the stock ROMS grid returns dx for both directions; part 'stock' takes dx of the start cell from the generated file); RK2 may be midpoint or Heun; order check is one-sided and only judged above a 1e-10 noise floor and where an independent implementation of the scheme itself shows its order at the same step counts (asymptotic regime).",
            "DESIGN.md section 3 C01"),
    "C02": ("exploration",
            "Hypothesis-generated synthetic ROMS files and positions; differential against an independent C-grid interpolator + convexity, linear-exactness and subgrid-vs-full-grid metamorphic relations",
            "Synthetic grid/forcing files (sizes, N incl. 1, both transforms, random stretching, bathymetries, masks with garbage on land faces, f8/f4/packed storage, legal subgrids incl. negative spellings) are read by the real Grid and Forcing; velocity and scalar forcing at 24-48 positions (uniform, edges, corners, +-1 ulp, rim; depths on levels, above the surface, below the bottom) are compared with the reference, with the node range, with the closed form for linear fields, and between subgrid and full grid; the sampled frame is the first or (after five clock/forcing updates) the second, which may live in a file of its own with its own storage and packing parameters; in two fifths of the cases some particles die after the forcing was evaluated and are removed from the state (what a sparse output record does) before the velocity of the survivors is requested; in a third of the cases the vertical set-up comes from an explicit Vinfo that differs from what the file records (other transform and critical depth, stretching from parameters), in half of the second-frame cases the particles change depth just before the last forcing update, and in half of the masked cases only the second frame has non-zero values on land faces; a third of the cases are backwards runs (the clock starts at the later frame), where the velocity felt is compared with its sign turned; depth histories change the depth by assignment or in place.",
            "At exactly half-way positions either neighbouring cell is accepted as the particle's own cell; tolerance 1e-12 (f8) / 8*2^-23 (f4, packed).",
            "DESIGN.md section 3 C02"),
    "C03": ("exploration",
            "Hypothesis-generated frame/file layouts; per-step differential against an independent 'lerp between bracketing frames' reference at static probes",
            "Frame layouts (gaps 1..12 steps incl. all-equal-to-dt, irregular), every kind of partition into files, start offsets, run lengths, both directions, 0-2 scalar fields, probes entering up to five steps into the run, f4/f8 or a storage per file (float or packed with per-file scale_factor/add_offset), optionally a time unit and epoch per file, are generated; Forcing is driven step by step exactly as Model.update orders the calls, and velocity (also a drawn pattern of look-ahead requests per step: one fraction only, the same fraction twice, 0.5 then 1.0, RK4's 0.5, 0.5, 1.0) and scalars are compared with the reference after every step. Exploration: finds layout-dependent hand-over errors, proves nothing beyond the cases run.",
            "Reference interpolator in vlib/roms.py written from the property text; tolerance (maxgap+4)*4*eps; reversed runs accept either bracketing frame for scalars between frame steps.",
            "DESIGN.md section 3 C03"),
    "C04": ("exploration",
            "Hypothesis-generated release tables and windows; differential of the State after every release step against a reference release schedule",
            "Tables (several times x rows, mult 0..5 or absent, rows before/in/at/after the window, extra int/float/time columns as instance or particle variables, header or names, column permutations, timestamp spellings, X/Y or lon/lat, discrete or continuous, forward or reversed) are read by the real ParticleReleaser; after each timer.update(); release.update() the newly appended particles must be exactly the scheduled rows repeated mult times, in file-row order, with their positions, extras and release time; in half of the cases some particles die between releases and stay in the state; a third of the X/Y tables also carry lon/lat columns that point elsewhere (X, Y wins, as documented); the release frequency is written in any accepted period spelling; extra columns may have configured defaults (the row's value wins). Part 'warm' runs ladim.main warm-started from a drawn file boundary of a split run with a recording release plug-in: nothing is released at the restart time, every later row / tick enters at its own step and position with the next pids.",
            "Times on the model grid, table sorted in simulation order, continuous file times on the tick grid (the property's quantifier); text->float parsing tolerance 1e-13.",
            "DESIGN.md section 3 C04"),
    "C05": ("exploration",
            "exhaustive enumeration of operation sequences up to a bound + Hypothesis-generated longer sequences against a list-of-records model; pid laws on output records of generated end-to-end runs",
            "All sequences up to length 5 (quick) / 7 (thorough) over an 11-operation alphabet on ladim.state.State are compared with a reference model after every operation (complete within that bound); longer parametrised sequences (incl. kills by integer 0/1 array or list and assignments of arrays of another dtype) are generated; generated end-to-end runs are read back and every record checked for strictly increasing pid and pid[k] >= k; the same for runs warm-started from a drawn file boundary, where in addition no new particle may get an identifier that was in use before the restart; per-particle values are present at index pid in every file and equal across files.",
            "Assigned arrays respect State's size contract (same length); the model is the reading of the property text in checks/c05.py.",
            "DESIGN.md section 3 C05"),
    "C06": ("exploration",
            "Hypothesis-generated end-to-end histories; round-trip oracle: state snapshot taken by a recording output plug-in at write time vs file read back by the documented recipe",
            "Generated simulations (multi-file forcing, release tables incl. continuous, scripted kills, lifetimes, out-of-grid flow, time-typed and other particle variables, sparse/dense, numrec, reference times, f4/f8) are run through ladim.main; every record of every file is compared with the snapshot taken when it was written, the count/time/particle-variable structure is checked, dense files must be filled exactly where a pid is not alive. Part 'warm' applies the same comparison to a run warm-started from a drawn file boundary of a split run; a state variable may be stored packed (integer with scale_factor/add_offset, lossless) and positions packed with a scale factor (compared to half a unit of the packing); in the warm part the model time of a record must be the restart time plus its step count; the stop time may lie between two steps.",
            "The snapshot is taken in a subclass of the stock Output immediately before delegating to it; netCDF4 is trusted for reading.",
            "DESIGN.md section 3 C06"),
    "C16": ("exploration",
            "Hypothesis-generated fields/masks/positions against an independent masked-bilinear reference (sampler); generated polar-stereographic grids with round-trip and residual oracles (xy2ll/ll2xy); end-to-end lon/lat release and output",
            "sample2D: value, convexity, exactness on bilinear fields, insensitivity to masked nodes, undefined and outside substitutes (incl. 0.0 and NaN), ValueError without substitute. Grid: ll2xy(xy2ll(p)) must return, stay inside the array and meet the solver's stopping residual and the grid-unit bound it implies. End to end: particles released by lon/lat start where the interpolated coordinates match, and lon/lat in every record equal the bilinear interpolation at that record's X, Y - also when a user's IBM asks the grid for lon/lat at the state's positions and moves the particles in place (state['X'] += ...), with split output (numrec) and in the dense layout.",
            "Sphere polar-stereographic grids 160 m..20 km, up to 60 (thorough 200) cells a side, not straddling +-180.",
            "DESIGN.md section 3 C16"),
    "C08": ("fault_enumeration",
            "Hypothesis-generated scenarios; every file boundary of the split run enumerated as a crash/restart point; differential uninterrupted vs restarted run, record by record",
            "Generated simulations (continuous/discrete release, ageing IBM with lifetime, scripted kills, flow out of the grid, scalar forcing copied to the state, EF/RK2/RK4, particle variables, a state variable optionally stored packed in the restart file, cell sizes that differ between cells, optionally particles switched off with the flag stored in the restart file, durations that are / are not multiples of the period) are run split with numrec 1..4; each completed file is used for a warm start configured as the documentation describes, and every later file of the restarted run is compared with the uninterrupted one (times, pid sets, all instance variables, particle variables, file names). Restart points are enumerated completely per scenario; scenarios are sampled.",
            "Diffusion off; f8 forcing and output; tolerance 1e-9; a restarted run may end with one extra record (or an empty/extra file) at the stop time, which is not compared; particles are switched off by the scripted IBM only in the cases (a third) that write the 'active' flag to the file as 0/1 bytes and name it among the warm-start variables - otherwise the flag is not restartable state.",
            "DESIGN.md section 3 C08"),
    "C09": ("exploration",
            "Hypothesis-generated masks, subgrids, flows and positions against a reference of kill / inactive / land-cancel (one step); per-step invariants over generated end-to-end histories observed through recording plug-ins",
            "One step of the real Tracker on the real Grid with a plug-in forcing that gives every particle its own strong constant velocity (so all schemes prescribe the same move) is compared with the reference outcome; generated simulations (stock forcing, diffusion on/off, all schemes) are observed after every step: the living are finite, inside the valid region and at sea, the dead never return nor appear in a later record - neither in the snapshots nor in the sparse or dense output files themselves (positions stored as floats or packed as integers) -, inactive particles keep X, Y.",
            "A candidate position exactly half-way between two cells may be attributed to either; with diffusion on only the invariants apply.",
            "DESIGN.md section 3 C09"),
    "C10": ("exploration",
            "Hypothesis-generated reversed simulations; metamorphic relation: reversed run == forward run on the time-mirrored, sign-flipped data, record by record; clock oracle S - k*dt",
            "Each generated time-reversed simulation (several forcing files, irregular frame gaps incl. 1 step, several release times, discrete/continuous, EF/RK2/RK4, scripted kills, scalar forcing; in a third of the cases forcing frames that fall between model steps; in a third the velocity packed as 16-bit integers saturating at both ends of the integer range) is paired with a forward simulation whose frames are negated and mirrored in time and whose release times are mirrored; pids, positions and state must agree in every record, the reversed run's record times must read S - k*period*dt and each particle must first appear in the record of its stated release time.",
            "f8 forcing/output; tolerance 1e-9 (the two runs interpolate in time from opposite ends); for packed forcing the mirrored run reads the negated decoded field as f4 and the tolerance is the accumulated float32 rounding bound.",
            "DESIGN.md section 3 C10"),
    "C11": ("exploration",
            "Hypothesis-generated parameters and generator seeds; statistical oracle with explicit 6.5-sigma acceptance bands + exact metamorphic scaling relations under a shared seed",
            "Clouds of 1e4..1e5 (thorough 1e6) particles in still water on an open plug-in grid: mean, variance (= 2*D*t per unit), X-Y, X-Z, step-to-step and neighbour correlations per case; quadrupling D doubles and doubling dx halves every displacement under the same seed; D = Dz = 0 is bitwise deterministic; vertical advection may be on together with vertical diffusion (a constant w shifts the cloud and leaves its spread alone). Part 'swap': two clouds in regions of different grid spacing, some particles removed and as many released between two steps; every displacement scaled by the particle's own spacing and age is standard normal. A third of the clouds start from a restart file with single-precision positions read by ladim.warm_start.",
            "False-alarm probability ~8e-11 per statistical test; Tracker.rng is replaced by a seeded generator after construction.",
            "DESIGN.md section 3 C11"),
    "C14": ("exploration",
            "Hypothesis-generated base scenario + one generated variant (drop/add/permute rows, kill others, whole-step time shift, repeat); metamorphic relation: per-particle trajectories bit-identical up to renumbering",
            "Base scenarios have depth- and position-dependent currents over variable bathymetry, cell sizes that differ between cells (two thirds of the cases), release positions given as longitude / latitude on a curvilinear grid (half of the generic cases), land, scripted deaths by tag followed by output steps, lifetimes, late releases, scalar forcing, an ageing IBM, both layouts and split files; the generator has fixed shares of directed flavours: coastal (release next to land, onshore flow faster than a cell per step, particles switched off or killed early that linger in the state), stage_cross (deaths seen by a sparse record while Runge-Kutta stages leave the start cell), units_shift (forcing time axis in days/hours since another epoch, whole-step shifts), border (a switched-off particle and another one leaving the grid), empty_gap (the model running empty until a later release), dense_release (dense layout, a death, then a release; a tag must stay in one column of the particle axis); every release row carries a unique tag so that trajectories are matched after renumbering; all variables of every record must be bit-identical (f8).",
            "mult = 1 for every row (unique tags), identifiers and rows must correspond one to one within a run; diffusion off.",
            "DESIGN.md section 3 C14"),
    "C15": ("exploration",
            "Hypothesis-generated bathymetries, depths and vertical forcing against the validity predicate 0 <= Z' <= h(start cell); exact reflected value for advection-only cases",
            "The real Tracker on a plug-in grid with generated bathymetry (ratios up to 5000), start depths incl. exactly 0 and h, vertical diffusion and/or advection within the property's premise, all horizontal schemes with flow into other cells, 1-4 steps; part 'stock' repeats it on the stock ROMS Grid built from a generated file (random / eta-sloping / xi-sloping bathymetry, subgrids with i0 != j0) with the reference depth read from the generated bathymetry; between steps some particles may die and be removed while as many new ones are released; the file's critical depth hc takes any value; a sixth of the cases are a crowd resting on a flat bottom with diffusion and advection both on and nearly the whole displacement budget given to the random part. Part 'run' runs ladim.main with vertical advection and w read from 1-3 generated forcing files, each stored in its own way (f8, f4, three packings), w on rho or w levels, with or without horizontal flow, sparse or dense output: every record keeps 0 <= Z <= h(cell in the previous record), no depth changes by more than the largest |w| on the files times dt, and with vertical movement off Z is bitwise constant.",
            "Premise enforced with a 6.5-sigma margin on the random part; only particles starting inside [0, h] are judged; a particle exactly on a cell edge may be given either neighbouring cell.",
            "DESIGN.md section 3 C15"),
    "C17": ("exploration",
            "fuzzing-style instrumentation: generated scenario spaces re-run with NUMBA_BOUNDSCHECK=1 plus a Python index monitor around every compiled kernel call",
            "Three generated families - the C02 sampling space, end-to-end histories with flow up to 4 m/s towards the open boundary (RK2/RK4, diffusion, subgrids, both layouts/directions) and a tracker-level boundary stress family (particles within 0.01 of the rim, displacements up to 3 cells, subgrids touching the full-grid edge, depths far outside the column, N = 1) - run with numba bounds checking forced on; the monitor recomputes the elements each trilinear / z2s / nearest call touches and also rejects negative indices, which numba wraps silently.",
            "Positions are those the model produces from releases inside the valid region; establishes nothing beyond the positions explored.",
            "DESIGN.md section 3 C17"),
    "C18": ("exploration",
            "Hypothesis-generated abstract simulations rendered in several spellings; differential between the output files of the YAML-v2, TOML-v2, YAML-v1 and defaulted-section runs",
            "Abstract simulations inside the v1 vocabulary (forcing file or wildcard, optional grid file, subgrid, extra forcing, discrete/continuous release, extra release columns as particle variables, optionally an 'active' column of 0/1 switching rows off, IBM module with parameters and variables, scheme, period spellings, reference time) are rendered as YAML v2, TOML v2 (native or string date-times), YAML v1 and a second v2 file with optional sections omitted vs present-but-empty and the grid section omitted / present without a module key (also completely empty) / with the module spelled out; legacy files name forcing and grid file in the gridforce or the files section; discrete releases may still carry a release frequency (legacy: release_type discrete or absent); in a third of the cases Grid and Forcing come from a user file given by path whose metric differs from the stock grid's; all four runs must complete and their output files agree in dimensions, variables, attributes and every value.",
            "forcing.module is always spelled; empty sections are written as {}.",
            "DESIGN.md section 3 C18"),
    "C19": ("exploration",
            "Hypothesis-generated run lengths, periods, plug-in spellings and cold/warm starts; call-log grammar + state snapshots from recording plug-ins in every module slot",
            "A recording module (thin subclasses of the stock Grid, Forcing, ParticleReleaser, Tracker, Output and a scripted IBM) is installed in any subset of the six slots under a generated spelling (absolute path with/without .py, relative path, bare name in the working directory with a same-named decoy on sys.path, module name on sys.path); the update calls must follow release, forcing, output, tracker, ibm once per step (plus the output-less catch-up step of a warm start), snapshots taken inside the calls must be consistent with that order, kills take effect from the next record and are never undone in any later call or record (the records are also read back from the files: none holds an identifier seen dead before it was written, also when nobody is left alive), close is called once per module, the decoy never runs, and - plug-in files of different slots may share one file name in different directories - every logged call comes from the file configured for its slot; the first release may come some steps after the start (the model steps with an empty state), in half of the cases the forcing ends exactly at the stop time, and the scalar forcing value in every record must be the one of the frame in force at the record's time. Inside every call the model clock a plug-in can read must be the time of that step (also in the warm start's catch-up step). Part 'legacy': a version-1 file naming a recording IBM by path, with or without a variables list.",
            "Recording classes log and delegate to the stock implementation.",
            "DESIGN.md section 3 C19"),
    "C20": ("fault_enumeration",
            "enumeration of every fault kind x every base scenario (x drawn fault parameters); oracle: the run raises before Model.update is entered and leaves no output record",
            "37 fault kinds (forcing not covering the window at either end, frames unsorted or duplicated within/across files, start/stop/dt absent/empty/null/zero, stop on the wrong side, releases all before/after/only at the stop time, no position columns, missing config/grid/forcing/release files, missing mandatory sections, six kinds of illegal subgrid) are injected one at a time into 16 base scenarios (forward/reversed x single/multi-file x discrete/continuous x grid section given/omitted); the unfaulted bases must run clean. Part 'warm': the faults in time (stop before the restart time, forcing ending before the stop, forcing starting after the restart time) injected into 8 warm-started bases (restart from a cold run's file or from the file of a run that was itself warm-started, start key kept or dropped, reference time configured or not). Half of the faulted cold-start cases replace, on the same paths, a valid set-up that was run first in the same process.",
            "'stops with an error' = SystemExit or any exception; 'before the simulation starts' = Model.update never entered.",
            "DESIGN.md section 3 C20"),
    "C12": ("exploration",
            "Hypothesis-generated vertical set-ups and depths checked against validity predicates (monotone, bounded, interleaved) and the clamped-interpolation identity",
            "s_stretch, sdepth, z2s and Grid.z_r/z_w (from file and from Vinfo) are evaluated on generated N, stretching parameters, transforms, hc, bathymetries and depths incl. exactly on levels and outside the range (the file may record another transform than the Vinfo); part 'lookup': the index pair and weight the forcing keeps for its particles over a history of forcing updates between which particles change depth and number.",
            "theta parameters >= 1e-3 (see DESIGN C12); tolerances 1e-12 (stretching end points) and 1e-9*h.",
            "DESIGN.md section 3 C12"),
    "C13": ("exploration",
            "Hypothesis-generated clocks and period spellings against integer-second reference arithmetic; malformed spellings must raise ValueError",
            "TimeKeeper is constructed from generated start/stop/reference/dt spellings in both directions and stepped; running clock, step<->time conversions at generated (also negative) steps, CF time values and units are compared with integer arithmetic; every spelling of a period must normalise to the same duration; malformed ones must be rejected; a clock put on the start time by assignment of step and time (what the model's warm start does) must read start +- n*dt from there on, incl. its CF time value. Part 'model': through ladim.main, cold (forward and reversed) and warm-started runs in which a recording IBM and a recording output note step and clock in every step.",
            "Units s, m, h (as documented for step2nctime).",
            "DESIGN.md section 3 C13"),
}

def main():
    checks = []
    for pid in ALL:
        if pid not in CHECKS:
            continue
        cat, tech, text, note, ref = CHECKS[pid]
        checks.append({
            "property_id": pid,
            "quick_cmd": f"./check {pid} --tier quick",
            "thorough_cmd": f"./check {pid} --tier thorough",
            "evidence_file": f"/verif/evidence/{pid}.json",
            "replay_cmd_template": f"./check {pid} --replay {{path}}",
            "engine": "hypothesis-harness",
            "level_claimed": {"category": cat, "text": text, "design_ref": ref},
            "level_note": note,
            "technique": tech,
        })
    man = {
        "version": 1,
        "setup_cmd": "/venv/bin/python -c 'import hypothesis' 2>/dev/null || /venv/bin/pip install --no-index --find-links /opt/veriftools/wheels hypothesis; /venv/bin/python -c 'import hypothesis, ladim, netCDF4, numba'",
        "hooks": {
            "guard": "LADIM2_VERIF",
            "enable": "No source hooks are needed: checks import /repo/ladim (editable install) and observe it through LADiM's own plug-in mechanism and in-process wrappers. The check runner sets LADIM2_VERIF=1 (reserved, unused by the repository).",
            "baseline_off_cmd": "cd /repo && /venv/bin/python -m pytest -ra -q -p no:cacheprovider --timeout=900 --continue-on-collection-errors",
            "source_commits": [],
            "add_only": True,
        },
        "engines": [{
            "name": "hypothesis-harness",
            "path": "/verif/check",
            "serves_properties": [c["property_id"] for c in checks],
            "kind_free_text": "Hypothesis-driven generated-input search (given / stateful / explicit enumeration) with independent reference models, sharded over 16 forked workers; /verif/vlib",
        }],
        "checks": checks,
        "not_applicable": [
            {"property_id": pid, "reason": "check not built yet in this round (planned in DESIGN.md section 3); not claimed"}
            for pid in ALL if pid not in CHECKS
        ],
        "notes": "All checks: ./check <ID> --tier quick|thorough; seed from VERIF_SEED; exit 0 held, 1 VIOLATION, 2 harness error. Known findings in /verif/known_findings.json.",
    }
    (VERIF / "MANIFEST.json").write_text(json.dumps(man, indent=1) + "\n")
    try:
        import jsonschema
        jsonschema.validate(man, json.loads(Path("/root/.vp/MANIFEST.schema.json").read_text()))
        print("manifest valid;", len(checks), "checks")
    except ImportError:
        print("written (jsonschema not available)")

if __name__ == "__main__":
    main()
