#!/usr/bin/env python3
"""Independently seeded changes (/verif/seeded/<name>/): import, verify, run the checks against them.

  tools/seeded.py import <PROP> <worktree> <name>   copy `git diff`, demo.py, SEED.md of an agent's worktree
  tools/seeded.py verify [name ...]                 patch applies, baseline tests unchanged, demo fails with /
                                                    passes without the patch (in a scratch worktree, removed after)
  tools/seeded.py run [--tier quick] [--props C01,C05] [--in-repo] [-j N] [name ...]
                                                    run the property's check against the patched tree
  tools/seeded.py table                             regenerate seeded/RESULTS.md from the meta.json files

`run` uses a scratch worktree of /repo with the patch applied and points the check at it with VERIF_REPO
(so several changes can be evaluated in parallel and /repo is never touched); `--in-repo` does it the literal
way instead: `git -C /repo apply`, run, `git -C /repo checkout -- .` (serial).  Evidence and replays of these
runs go to a scratch directory, never to /verif/evidence.  Nothing is ever committed to /repo.
"""
import argparse
import json
import os
import shutil
import subprocess
import sys
import tempfile
import time
import xml.etree.ElementTree as ET
from concurrent.futures import ThreadPoolExecutor
from pathlib import Path

VERIF = Path(__file__).resolve().parent.parent
SEEDED = VERIF / "seeded"
REPO = Path("/repo")
PY = "/venv/bin/python"
SCRATCH = Path(os.environ.get("VERIF_SEED_SCRATCH", "/tmp/verif_seeded"))


def sh(cmd, timeout=3600, **kw):
    return subprocess.run(cmd, shell=True, capture_output=True, text=True, timeout=timeout, **kw)


def names(sel):
    all_ = sorted(p.name for p in SEEDED.iterdir() if (p / "patch.diff").exists()) if SEEDED.exists() else []
    if not sel:
        return all_
    return [n for n in all_ if any(s in n for s in sel)]


def load_meta(name):
    p = SEEDED / name / "meta.json"
    return json.loads(p.read_text()) if p.exists() else {}


def save_meta(name, meta):
    (SEEDED / name / "meta.json").write_text(json.dumps(meta, indent=1, sort_keys=True) + "\n")


class Worktree:
    def __init__(self, tag, patch=None):
        self.dir = SCRATCH / f"wt_{tag}_{os.getpid()}"
        self.patch = patch

    def __enter__(self):
        SCRATCH.mkdir(parents=True, exist_ok=True)
        if self.dir.exists():
            sh(f"git -C {REPO} worktree remove --force {self.dir}")
        r = sh(f"git -C {REPO} worktree add --detach {self.dir} HEAD")
        if r.returncode:
            raise RuntimeError(r.stderr)
        if self.patch:
            r = sh(f"git -C {self.dir} apply {self.patch}")
            if r.returncode:
                raise RuntimeError(f"patch does not apply: {r.stderr}")
        return self.dir

    def __exit__(self, *a):
        sh(f"git -C {REPO} worktree remove --force {self.dir}")
        shutil.rmtree(self.dir, ignore_errors=True)
        sh(f"git -C {REPO} worktree prune")


def run_tests(wt):
    """Returns (set of passed test ids, summary line)."""
    xml = Path(tempfile.mkstemp(suffix=".xml", dir=SCRATCH)[1])
    env = dict(os.environ, PYTHONPATH=str(wt), PYTHONDONTWRITEBYTECODE="1")
    r = sh(f"cd {wt} && {PY} -m pytest -q -p no:cacheprovider --timeout=900 --continue-on-collection-errors "
           f"--junitxml={xml}", env=env)
    passed = set()
    try:
        for tc in ET.parse(xml).getroot().iter("testcase"):
            if not any(ch.tag in ("failure", "error", "skipped") for ch in tc):
                passed.add(f"{tc.get('classname')}::{tc.get('name')}")
    finally:
        xml.unlink(missing_ok=True)
    tail = [l for l in r.stdout.splitlines() if " passed" in l or " failed" in l]
    return passed, (tail[-1] if tail else r.stdout[-200:])


_baseline = {}


def baseline_tests():
    if "p" not in _baseline:
        head = sh(f"git -C {REPO} rev-parse HEAD").stdout.strip()
        cache = SCRATCH / f"baseline_{head}.json"
        if cache.exists():
            d = json.loads(cache.read_text())
            _baseline["p"], _baseline["s"] = set(d["passed"]), d["summary"]
        else:
            with Worktree("base") as wt:
                p, s = run_tests(wt)
            SCRATCH.mkdir(parents=True, exist_ok=True)
            cache.write_text(json.dumps({"passed": sorted(p), "summary": s}))
            _baseline["p"], _baseline["s"] = p, s
    return _baseline["p"], _baseline["s"]


def cmd_import(prop, worktree, name):
    d = SEEDED / name
    d.mkdir(parents=True, exist_ok=True)
    diff = sh(f"git -C {worktree} diff -- ladim").stdout
    if not diff.strip():
        print("no diff under ladim/")
        return 1
    (d / "patch.diff").write_text(diff)
    for f in ("demo.py", "SEED.md"):
        if (Path(worktree) / f).exists():
            shutil.copy(Path(worktree) / f, d / f)
    meta = load_meta(name)
    meta.update(property=prop, name=name, origin="fresh sub-agent given only the property text and a scratch worktree")
    save_meta(name, meta)
    print(f"imported {name}")
    return 0


def cmd_verify(sel):
    base, bsum = baseline_tests()
    required = set(json.loads(Path("/root/.vp/BASELINE.json").read_text())["stable_pass"])
    rc = 0
    for name in names(sel):
        d = SEEDED / name
        meta = load_meta(name)
        v = {}
        try:
            with Worktree("v" + name[:20], d / "patch.diff") as wt:
                passed, summ = run_tests(wt)
                v["tests_with_patch"] = summ
                v["tests_at_head"] = bsum
                v["tests_lost"] = sorted(base - passed)
                v["baseline59_lost"] = sorted(t for t in required if t not in passed and t in base)
                env = dict(os.environ, PYTHONPATH=str(wt), PYTHONDONTWRITEBYTECODE="1")
                shutil.copy(d / "demo.py", wt / "demo.py")
                r1 = sh(f"cd {wt} && {PY} demo.py", env=env, timeout=900)
                v["demo_with_patch_rc"] = r1.returncode
                v["demo_with_patch_tail"] = (r1.stdout + r1.stderr)[-400:]
                sh(f"git -C {wt} checkout -- .")
                r0 = sh(f"cd {wt} && {PY} demo.py", env=env, timeout=900)
                v["demo_without_patch_rc"] = r0.returncode
            v["ok"] = (not v["tests_lost"] and v["demo_with_patch_rc"] != 0 and v["demo_without_patch_rc"] == 0)
        except Exception as e:  # noqa: BLE001
            v["ok"] = False
            v["error"] = str(e)
        v["head"] = sh(f"git -C {REPO} rev-parse --short HEAD").stdout.strip()
        meta["verified"] = v
        save_meta(name, meta)
        print(f"{name}: {'OK' if v['ok'] else 'NOT CONFIRMED'} tests_lost={len(v.get('tests_lost', []))} "
              f"demo with={v.get('demo_with_patch_rc')} without={v.get('demo_without_patch_rc')} {v.get('error', '')}")
        rc |= 0 if v["ok"] else 1
    return rc


def run_one(name, props, tier, in_repo, workers):
    d = SEEDED / name
    meta = load_meta(name)
    props = props or [meta["property"]]
    out = {}
    evd = SCRATCH / f"ev_{name}_{os.getpid()}"

    def go(repo_dir):
        for prop in props:
            env = dict(os.environ, VERIF_EVIDENCE_DIR=str(evd), VERIF_REPLAY_DIR=str(evd / "replays"),
                       VERIF_WORKERS=str(workers))
            if repo_dir:
                env["VERIF_REPO"] = str(repo_dir)
            t0 = time.time()
            r = sh(f"cd {VERIF} && ./check {prop} --tier {tier}", env=env, timeout=6 * 3600)
            sigs = sorted({l.split("sig=")[1].split(":")[0] for l in r.stdout.splitlines()
                           if l.startswith("violation ")})
            caught = r.returncode == 1 and "VIOLATION property=" in r.stdout
            out[prop] = dict(caught=caught, rc=r.returncode, sigs=sigs[:6], wall_s=round(time.time() - t0),
                             tier=tier)
            if r.returncode == 2:
                out[prop]["stderr"] = r.stderr[-500:]

    try:
        if in_repo:
            if sh(f"git -C {REPO} status --porcelain").stdout.strip():
                raise RuntimeError("/repo working tree is not clean")
            try:
                r = sh(f"git -C {REPO} apply {d / 'patch.diff'}")
                if r.returncode:
                    raise RuntimeError(r.stderr)
                go(None)
            finally:
                sh(f"git -C {REPO} checkout -- .")
        else:
            with Worktree("r" + name[:20], d / "patch.diff") as wt:
                go(wt)
    finally:
        shutil.rmtree(evd, ignore_errors=True)
    meta.setdefault("checks", {}).update(out)
    meta["checks_head"] = sh(f"git -C {VERIF} rev-parse --short HEAD").stdout.strip()
    save_meta(name, meta)
    for prop, o in out.items():
        print(f"{name} / {prop}: {'CAUGHT' if o['caught'] else 'MISSED'} rc={o['rc']} {o['wall_s']}s {o['sigs'][:3]}"
              + (("\n" + o.get("stderr", "")) if o["rc"] == 2 else ""), flush=True)
    return out


def cmd_run(args):
    sel = names(args.names)
    props = args.props.split(",") if args.props else None
    if args.in_repo or args.jobs <= 1:
        for n in sel:
            run_one(n, props, args.tier, args.in_repo, 16)
    else:
        w = max(2, 16 // args.jobs)
        with ThreadPoolExecutor(args.jobs) as ex:
            list(ex.map(lambda n: run_one(n, props, args.tier, False, w), sel))
    return 0


def cmd_table():
    rows = []
    for name in names(None):
        m = load_meta(name)
        v = m.get("verified", {})
        ch = m.get("checks", {})
        own = ch.get(m.get("property"), {})
        others = [f"{p}" for p, o in ch.items() if p != m.get("property") and o.get("caught")]
        rows.append((name, m.get("property", "?"), "yes" if v.get("ok") else "no",
                     m.get("needs", "").replace("\n", " ").replace("|", "/"),
                     ("caught" if own.get("caught") else "MISSED") + f" ({own.get('tier', '?')}, {own.get('wall_s', '?')} s)"
                     if own else "not run",
                     ", ".join(own.get("sigs", [])[:3]), ", ".join(others)))
    lines = ["# Independently seeded changes and what the checks make of them", "",
             "Generated by `tools/seeded.py table` from `seeded/*/meta.json`.", "",
             "| change | property | confirmed | needs, in order to manifest | check of the property | signatures | also caught by |",
             "|---|---|---|---|---|---|---|"]
    for r in rows:
        lines.append("| " + " | ".join(r) + " |")
    n = len(rows)
    c = sum(1 for r in rows if r[4].startswith("caught"))
    lines += ["", f"{c} of {n} caught by the quick/thorough check of their property as recorded above."]
    (SEEDED / "RESULTS.md").write_text("\n".join(lines) + "\n")
    print("\n".join(lines))
    return 0


def main():
    ap = argparse.ArgumentParser()
    sub = ap.add_subparsers(dest="cmd", required=True)
    a = sub.add_parser("import")
    a.add_argument("prop")
    a.add_argument("worktree")
    a.add_argument("name")
    a = sub.add_parser("verify")
    a.add_argument("names", nargs="*")
    a = sub.add_parser("run")
    a.add_argument("--tier", default="quick")
    a.add_argument("--props", default=None)
    a.add_argument("--in-repo", action="store_true")
    a.add_argument("-j", "--jobs", type=int, default=1)
    a.add_argument("names", nargs="*")
    sub.add_parser("table")
    args = ap.parse_args()
    if args.cmd == "import":
        return cmd_import(args.prop, args.worktree, args.name)
    if args.cmd == "verify":
        return cmd_verify(args.names)
    if args.cmd == "run":
        return cmd_run(args)
    return cmd_table()


if __name__ == "__main__":
    sys.exit(main())
