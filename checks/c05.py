"""C05 - particle identity: pids dense, ordered, never reused, following the particle.

Operation sequences on ladim.state.State against a list-of-records model:
exhaustive up to a bounded length over a concrete alphabet, generated beyond;
plus the pid laws on the output records of generated end-to-end runs.
"""

from __future__ import annotations

import itertools
import math

import numpy as np
from hypothesis import strategies as st

from vlib import core

PID = "C05"
LEVEL = "exploration"

IVARS = {"age": float, "w": float, "tag": int}
PVARS = {"X0": float, "born": int}
DEFAULTS = {"age": 0.0, "tag": -1, "born": 7}


def new_state():
    from ladim.state import State

    return State(instance_variables=dict(IVARS), particle_variables=dict(PVARS),
                 default_values=dict(DEFAULTS))


class Model:
    """Reference: list of records (one per particle still in the arrays) + pid-indexed values."""

    def __init__(self):
        self.recs = []
        self.pv = {"X0": [], "born": []}
        self.npid = 0
        self.c = 0

    def append(self, n, give, mode):
        """Return kwargs for State.append and update the model."""
        kw = {}
        cs = [self.c + k for k in range(n)]
        self.c += max(n, 1)
        X = [c + 0.25 for c in cs]
        Y = [c + 0.5 for c in cs]
        Z = [c + 0.75 for c in cs]
        if mode == "scalar":  # n == 1, plain python scalars
            kw.update(X=X[0], Y=Y[0], Z=Z[0])
        elif mode == "broadcast":  # X array, Y and Z scalars
            Y = [Y[0] if n else 0.5] * n
            Z = [Z[0] if n else 0.75] * n
            kw.update(X=np.array(X, float), Y=(Y[0] if n else 0.5), Z=(Z[0] if n else 0.75))
        else:
            kw.update(X=np.array(X, float), Y=list(Y), Z=np.array(Z, float))
        vals = {}
        for name, default in (("age", 0.0), ("tag", -1), ("w", math.nan), ("X0", math.nan), ("born", 7)):
            if name in give:
                if name in ("tag", "born"):
                    v = [int(c) * 3 + 1 for c in cs]
                    kw[name] = np.array(v, int) if mode != "scalar" else v[0]
                else:
                    v = [c + {"age": 0.1, "w": 0.2, "X0": 0.125}[name] for c in cs]
                    kw[name] = np.array(v, float) if mode != "scalar" else v[0]
                vals[name] = v
            else:
                vals[name] = [default] * n
        act = [True] * n
        if "flags" in give and n and mode != "scalar":
            # the state's own flag given as 0 / 1 integers (what a release file column delivers)
            act = [bool((c + 1) % 2) for c in cs]
            kw["active"] = np.array([int(a) for a in act], int)
        for k in range(n):
            self.recs.append(dict(pid=self.npid, X=X[k], Y=Y[k], Z=Z[k], alive=True, active=act[k],
                                  age=vals["age"][k], w=vals["w"][k], tag=vals["tag"][k]))
            self.pv["X0"].append(vals["X0"][k])
            self.pv["born"].append(vals["born"][k])
            self.npid += 1
        return kw


def pick(bits, n):
    return [i for i in range(n) if (bits >> (i % 16)) & 1]


def apply_op(state, model: Model, op):
    kind = op[0]
    n_before = len(model.recs)
    if kind == "append":
        _, n, give, mode = op
        if mode == "scalar":
            n = 1
        kw = model.append(n, set(give), mode)
        state.append(**kw)
    elif kind == "kill":
        idx = pick(op[1], n_before)
        how = op[2]
        if how == "inplace":
            for i in idx:
                state["alive"][i] = False
        elif how == "assign_int":  # the way an IBM writes it: np.where(cond, 0, 1) is an integer array
            m = np.ones(n_before, dtype=int)
            m[[i for i in range(n_before) if not model.recs[i]["alive"]]] = 0
            m[idx] = 0
            state["alive"] = m
        elif how == "assign_list":
            dead = set(idx) | {i for i in range(n_before) if not model.recs[i]["alive"]}
            state["alive"] = [i not in dead for i in range(n_before)]
        else:
            m = state["alive"].copy()
            m[idx] = False
            state["alive"] = m
        for i in idx:
            model.recs[i]["alive"] = False
    elif kind == "deact":
        idx = pick(op[1], n_before)
        a = state["active"].copy()
        a[idx] = False
        state["active"] = a
        for i in idx:
            model.recs[i]["active"] = False
    elif kind == "compact":
        state.compactify()
        model.recs = [r for r in model.recs if r["alive"]]
    elif kind == "assign":
        var = op[1]
        newv = [r[var] * 2 + 1 for r in model.recs]
        if op[2] == "list":
            state[var] = newv
        elif op[2] == "other":  # an array of another dtype: the state keeps the declared type
            if var == "tag":
                state[var] = np.array(newv, dtype=float)
            else:
                a32 = np.array(newv, dtype=np.float32)
                state[var] = a32
                newv = [float(v) for v in a32]
        else:
            state[var] = np.array(newv, dtype=float if var != "tag" else int)
        for r, v in zip(model.recs, newv):
            r[var] = v
    elif kind == "inplace":
        var = op[1]
        state[var] += 1
        for r in model.recs:
            r[var] = r[var] + 1
    elif kind == "pvar_assign":
        newv = [v + 100 for v in model.pv["born"]]
        state["born"] = np.array(newv, int)
        model.pv["born"] = newv
    else:
        raise ValueError(op)


def same(a, b):
    if isinstance(a, float) and math.isnan(a):
        return isinstance(b, (float, np.floating)) and math.isnan(b)
    return a == b


def invariant(state, model: Model, res: core.CaseResult, where):
    n = len(model.recs)
    lens = {v: len(state[v]) for v in state.instance_variables}
    if not res.check(set(lens.values()) == {n}, "instance_lengths",
                     f"{where}: instance array lengths {lens}, model {n}"):
        return False
    res.check(len(state) == n, "len", f"{where}: len(state)={len(state)} model {n}")
    pid = [int(p) for p in state["pid"]]
    mp = [r["pid"] for r in model.recs]
    res.check(all(a < b for a, b in zip(pid, pid[1:])), "pid_order", f"{where}: pid not increasing {pid}")
    if not res.check(pid == mp, "pid_follow", f"{where}: pid {pid} model {mp}"):
        return False
    res.check(state.npid == model.npid, "npid", f"{where}: npid {state.npid} model {model.npid}")
    for var in ("X", "Y", "Z", "alive", "active", "age", "w", "tag"):
        arr = state[var]
        for k, r in enumerate(model.recs):
            got = arr[k].item() if hasattr(arr[k], "item") else arr[k]
            if not same(r[var], got):
                res.fail("instance_value", f"{where}: {var}[{k}] (pid {r['pid']}) = {got!r}, model {r[var]!r}")
                return False
    for var in ("X0", "born"):
        arr = state[var]
        if not res.check(len(arr) == model.npid, "pvar_length",
                         f"{where}: len({var}) = {len(arr)}, npid {model.npid}"):
            return False
        for p in range(model.npid):
            got = arr[p].item()
            if not same(model.pv[var][p], got):
                res.fail("pvar_value", f"{where}: {var}[pid {p}] = {got!r}, model {model.pv[var][p]!r}")
                return False
    # dtypes must not drift
    res.check(state["pid"].dtype.kind == "i" and state["alive"].dtype == bool and state["active"].dtype == bool
              and state["tag"].dtype.kind == "i" and state["X"].dtype == np.float64, "dtype_drift",
              f"{where}: dtypes pid={state['pid'].dtype} alive={state['alive'].dtype} tag={state['tag'].dtype}")
    return True


def seq_oracle(ops) -> core.CaseResult:
    res = core.CaseResult()
    state, model = new_state(), Model()
    removed_nonlast = False
    nontriv = False
    for k, op in enumerate(ops):
        op = tuple(tuple(x) if isinstance(x, list) else x for x in op)
        if op[0] == "compact":
            dead = [i for i, r in enumerate(model.recs) if not r["alive"]]
            alive_after = [i for i, r in enumerate(model.recs) if r["alive"]]
            if dead and alive_after and min(dead) < max(alive_after):
                removed_nonlast = True
        if op[0] == "append" and removed_nonlast and (op[1] > 0 or op[3] == "scalar"):
            nontriv = True
        try:
            apply_op(state, model, op)
        except Exception as e:  # noqa: BLE001
            res.fail("op_raises", f"op {k} {op}: {e!r}")
            return res
        if not invariant(state, model, res, f"after op {k} {op}"):
            break
    res.nontrivial = nontriv
    res.cls("append_after_hole" if nontriv else "plain")
    return res


# concrete alphabet for the exhaustive part
ALPHABET = [
    ("append", 1, (), "scalar"),
    ("append", 2, ("age", "X0"), "array"),
    ("append", 3, ("w",), "broadcast"),
    ("append", 2, ("tag", "born", "X0", "flags"), "array"),
    ("kill", 0b0001, "inplace"),       # first
    ("kill", 0b1010101010101010, "assign"),  # every second, starting at index 1
    ("kill", 0b0101010101010101, "inplace"),  # every second, starting at index 0
    ("kill", 0b0110011001100110, "assign_int"),  # item assignment with an integer 0/1 array
    ("compact",),
    ("assign", "X", "array"),
    ("inplace", "age"),
]


def exhaustive_shard(prefixes, maxlen, known):
    st_ = core.Stats()
    cases = []
    for pre in prefixes:
        for L in range(0, maxlen - len(pre) + 1):
            for tail in itertools.product(range(len(ALPHABET)), repeat=L):
                cases.append([list(ALPHABET[i]) for i in (*pre, *tail)])
    core.enumerate_cases("exhaustive", cases, seq_oracle, st_, known)
    return st_


gives = st.lists(st.sampled_from(["age", "w", "tag", "X0", "born", "flags"]), unique=True, max_size=6).map(sorted)
op_strategy = st.one_of(
    st.tuples(st.just("append"), st.integers(0, 6), gives, st.sampled_from(["array", "broadcast", "scalar"])),
    st.tuples(st.just("kill"), st.integers(0, 2**16 - 1), st.sampled_from(["inplace", "assign", "assign_int", "assign_list"])),
    st.tuples(st.just("deact"), st.integers(0, 2**16 - 1)),
    st.tuples(st.just("compact")),
    st.tuples(st.just("assign"), st.sampled_from(["X", "Y", "Z", "age", "w", "tag"]), st.sampled_from(["array", "list", "other"])),
    st.tuples(st.just("inplace"), st.sampled_from(["X", "age", "w", "tag"])),
    st.tuples(st.just("pvar_assign")),
)


def random_shard(n, maxlen, seed, known):
    st_ = core.Stats()
    core.drive("generated", st.lists(op_strategy, min_size=8, max_size=maxlen).map(
        lambda ops: [list(o) for o in ops]), seq_oracle, n, seed, st_, known)
    return st_


def run(ctx):
    maxlen = ctx.n(5, 7)
    prefixes = [(i, j) for i in range(len(ALPHABET)) for j in range(len(ALPHABET))]
    if not ctx.quick:  # three-op prefixes give 1000 evenly sized jobs
        prefixes = [(i, j, k) for i, j in prefixes for k in range(len(ALPHABET))]
    jobs_ex = [([p], maxlen, ctx.known_sigs) for p in prefixes]
    stats = core.Stats()
    # shorter sequences than the prefixes used for sharding
    short = [[list(a)] for a in ALPHABET]
    if not ctx.quick:
        short += [[list(a), list(b)] for a in ALPHABET for b in ALPHABET]
    core.enumerate_cases("exhaustive", short, seq_oracle, stats, ctx.known_sigs)
    for s in core.pmap(exhaustive_shard, jobs_ex):
        stats.merge(s)
    n_ex = stats.evaluations
    jobs = [(k, ctx.n(60, 200), core.subseed(ctx.seed, "r", i), ctx.known_sigs)
            for i, k in enumerate(core.split(ctx.n(3000, 80000), 16))]
    for s in core.pmap(random_shard, jobs):
        stats.merge(s)
    from checks import c06

    out_stats = c06.run_pid_laws(ctx)
    stats.merge(out_stats)
    return stats, dict(
        rule=(f"exhaustive: every sequence of length 1..{maxlen} over a {len(ALPHABET)}-operation alphabet "
              f"({n_ex} sequences); generated: lists of parametrised operations up to length {ctx.n(60, 200)}; "
              "non-trivial = an append after a compactify that removed a non-last particle. "
              "output: pid strictly increasing and pid[k] >= k in every record of generated end-to-end runs "
              "(non-trivial = a record written after a death); output_warm: the same laws in the records of a run "
              "warm-started from a drawn file boundary, plus: a new particle never gets an identifier that was in "
              "use before the restart"),
        exhaustive=False,
        extra={"exhaustive_part": {"alphabet": [list(map(str, a)) for a in ALPHABET], "max_length": maxlen,
                                   "sequences": n_ex, "complete": True}},
        assumptions=["operation arguments follow the size contract in State.__setitem__'s comment "
                     "(assigned arrays have the current length)"],
    )


def replay(part, case):
    if part in ("output", "output_warm"):
        from checks import c06

        return c06.pid_law_warm_oracle(case) if part == "output_warm" else c06.pid_law_oracle(case)
    return seq_oracle(case)
