"""C20 - impossible set-ups are refused before the simulation starts (fault enumeration)."""

from __future__ import annotations

import itertools

import numpy as np
import yaml

from vlib import core, e2e, roms, scen

PID = "C20"
LEVEL = "fault_enumeration"
DT = 60
NSTEPS = 6

FAULTS = [
    "forcing_starts_late", "forcing_ends_early", "frames_unsorted_in_file", "frames_unsorted_across_files",
    "frame_duplicated_across_files", "frame_duplicated_in_file",
    "start_absent", "start_empty", "start_null", "stop_absent", "stop_empty", "stop_null",
    "dt_absent", "dt_zero", "dt_null", "stop_wrong_side",
    "release_all_before", "release_all_after", "release_only_at_stop", "release_no_position",
    "release_file_missing", "release_file_empty_name",
    "config_missing", "grid_file_missing", "forcing_file_missing", "forcing_pattern_no_match",
    "section_time_missing", "section_tracker_missing", "section_release_missing", "section_output_missing",
    "section_forcing_missing",
    "subgrid_i0_ge_i1", "subgrid_j0_ge_j1", "subgrid_beyond_range", "subgrid_touches_rim_low",
    "subgrid_touches_rim_high", "subgrid_negative_overflow",
]
BASES = [dict(reverse=r, multi=m, continuous=c, gridsec=g)
         for r, m, c, g in itertools.product([False, True], [False, True], [False, True], [True, False])]


def build(d, base, fault, param):
    """Write a base scenario with one fault injected; returns the config path."""
    rng = np.random.default_rng(param)
    k = int(rng.integers(1, 5))
    G = roms.make_grid(8, 9, N=2, hval=40.0, dx=100.0)
    sgn = -1 if base["reverse"] else 1
    start = scen.T0 + scen.S(3600)
    stop = start + scen.S(sgn * NSTEPS * DT)
    tmin, tmax = min(start, stop), max(start, stop)
    # frames every 2 steps from tmin-2 to tmax+2 (time ascending)
    ft = [tmin + scen.S(s * DT) for s in range(-2, NSTEPS + 3, 2)]
    if fault == "forcing_starts_late":
        ft = [t for t in ft if t > tmin + scen.S((k - 1) * DT)]
    if fault == "forcing_ends_early":
        ft = [t for t in ft if t < tmax - scen.S((k - 1) * DT)]
    nfr = len(ft)
    part = [nfr] if not base["multi"] else [nfr // 2, nfr - nfr // 2]
    order = list(range(nfr))
    if fault == "frames_unsorted_in_file":
        i = int(rng.integers(0, part[0] - 1))
        order[i], order[i + 1] = order[i + 1], order[i]
    if fault == "frame_duplicated_in_file":
        i = int(rng.integers(0, part[0] - 1))
        ft = list(ft)
        ft[i + 1] = ft[i]
    if fault == "frames_unsorted_across_files":
        part = [nfr // 2, nfr - nfr // 2]
        order = order[part[0]:] + order[:part[0]]  # first file holds the later times
        part = [part[1], part[0]]
    if fault == "frame_duplicated_across_files":
        part = [nfr // 2, nfr - nfr // 2]
        ft = list(ft)
        ft[part[0]] = ft[part[0] - 1]
    ft = [ft[i] for i in order]
    U, V = scen.vel_arrays(G, nfr, {"kind": "const", "u": 0.05, "v": 0.02})
    fname, files = scen.write_forcing(d, G, ft, U, V, partition=part)
    if len(files) > 1:
        fname = str(d / "forcing_*.nc")
    # release
    rsteps = [0, 2]
    if fault == "release_all_before":
        rsteps = [-k - 1, -k]
    if fault == "release_all_after":
        rsteps = [NSTEPS + k, NSTEPS + k + 1]
    if fault == "release_only_at_stop":
        rsteps = [NSTEPS]
    cols = ["release_time", "X", "Y", "Z"]
    if fault == "release_no_position":
        cols = ["release_time", "Z"] if k % 2 else ["release_time", "X", "Z"]
    rows = []
    for s in rsteps:
        vals = {"release_time": e2e.iso(start + scen.S(sgn * s * DT)), "X": 4.2, "Y": 3.6, "Z": 2.0}
        rows.append([vals[c] for c in cols])
    e2e.write_release(d / "rel.rls", rows, cols)
    conf = e2e.base_conf(d, start, stop, DT, fname, d / "rel.rls", period=2 * DT, reverse=base["reverse"])
    if base["continuous"]:
        conf["release"]["continuous"] = True
        conf["release"]["release_frequency"] = 2 * DT
    if not base["gridsec"]:
        del conf["grid"]
    else:
        conf["grid"]["filename"] = str(files[0])
    t = conf["time"]
    if fault == "start_absent":
        del t["start"]
    if fault == "start_empty":
        t["start"] = ""
    if fault == "start_null":
        t["start"] = None
    if fault == "stop_absent":
        del t["stop"]
    if fault == "stop_empty":
        t["stop"] = ""
    if fault == "stop_null":
        t["stop"] = None
    if fault == "dt_absent":
        del t["dt"]
    if fault == "dt_zero":
        t["dt"] = 0
    if fault == "dt_null":
        t["dt"] = None
    if fault == "stop_wrong_side":
        t["stop"] = e2e.iso(start - scen.S(sgn * k * DT))
    if fault == "release_file_missing":
        conf["release"]["release_file"] = str(d / "nosuch.rls")
    if fault == "release_file_empty_name":
        conf["release"]["release_file"] = ""
    if fault == "grid_file_missing":
        conf.setdefault("grid", {"module": "ladim.ROMS"})["filename"] = str(d / "nogrid.nc")
    if fault == "forcing_file_missing":
        conf["forcing"]["filename"] = str(d / "noforcing.nc")
        conf.setdefault("grid", {"module": "ladim.ROMS"})["filename"] = str(files[0])
    if fault == "forcing_pattern_no_match":
        conf["forcing"]["filename"] = str(d / "nothing_*.nc")
        conf.setdefault("grid", {"module": "ladim.ROMS"})["filename"] = str(files[0])
    for sec in ("time", "tracker", "release", "output", "forcing"):
        if fault == f"section_{sec}_missing":
            del conf[sec]
            if sec == "forcing":
                conf.setdefault("grid", {"module": "ladim.ROMS"})["filename"] = str(files[0])
                conf["grid"]["module"] = "ladim.ROMS"
    jm, im = 8, 9
    sub = None
    if fault == "subgrid_i0_ge_i1":
        sub = [4, 4 - (k % 2), 1, jm - 1]
    if fault == "subgrid_j0_ge_j1":
        sub = [1, im - 1, 5, 5 - (k % 2)]
    if fault == "subgrid_beyond_range":
        sub = [1, im - 1 + k, 1, jm - 1] if k % 2 else [1, im - 1, 1, jm - 1 + k]
    if fault == "subgrid_touches_rim_low":
        sub = [0, im - 1, 1, jm - 1] if k % 2 else [1, im - 1, 0, jm - 1]
    if fault == "subgrid_touches_rim_high":
        sub = [1, im, 1, jm - 1] if k % 2 else [1, im - 1, 1, jm]
    if fault == "subgrid_negative_overflow":
        sub = [-(im + k), im - 1, 1, jm - 1]
    if sub is not None:
        conf.setdefault("grid", {"module": "ladim.ROMS", "filename": str(files[0])})["subgrid"] = sub
    path = d / "ladim.yaml"
    if fault != "config_missing":
        with open(path, "w", encoding="utf-8") as f:
            yaml.safe_dump(conf, f, sort_keys=False)
    return path


def records_on_disk(d):
    n = 0
    for name in e2e.list_outputs(d):
        try:
            from netCDF4 import Dataset

            with Dataset(d / name) as nc:
                n += len(nc.variables["time"]) if "time" in nc.variables else 0
        except Exception:  # noqa: BLE001,S110
            pass
    return n


def oracle(case) -> core.CaseResult:
    res = core.CaseResult()
    base, fault, param = case["base"], case["fault"], case["param"]
    res.nontrivial = fault != "none"
    res.cls(fault)
    if fault in ("release_all_before",) and base["continuous"]:
        # rows before the window keep releasing inside it in continuous mode: not a fault
        res.cls("not_a_fault_in_continuous_mode")
        res.nontrivial = False
        return res
    with e2e.workdir() as d:
        if fault != "none" and fault != "config_missing" and param % 2 == 1:
            # the faulted set-up replaces a valid one in the same directory (same file names) after that one has
            # been run in this process: what was learnt about the old files must not be trusted for the new ones
            r0 = e2e.run_main(build(d, base, "none", param))
            if r0["status"] != "ok":
                raise core.HarnessError(f"valid base {base} does not run: {r0['exc']}")
            for f in list(d.iterdir()):
                f.unlink()
            res.cls("after_a_valid_run_on_the_same_paths")
        path = build(d, base, fault, param)
        r = e2e.run_main(path)
        nrec = records_on_disk(d)
    if fault == "none":
        res.check(r["status"] == "ok" and r["updates"] == NSTEPS and nrec == 3, "base_not_clean",
                  f"unfaulted base {base} does not run clean: {r['exc']} updates={r['updates']} records={nrec}\n{(r['tb'] or '')[-400:]}")
        res.nontrivial = True
        return res
    tag = "_at_stop" if fault == "release_only_at_stop" else ""
    res.check(r["status"] != "ok", "not_refused" + tag,
              f"fault '{fault}' in base {base}: the run completed normally ({r['updates']} steps, {nrec} records)")
    res.check(r["updates"] == 0, "simulation_started" + tag,
              f"fault '{fault}' in base {base}: {r['updates']} model steps were executed before the run stopped ({r['exc']})")
    res.check(nrec == 0, "records_written" + tag,
              f"fault '{fault}' in base {base}: {nrec} output records exist after the refused run ({r['exc']})")
    return res



# ---------------------------------------------------------------------------
# warm-started bases: the window begins at the last record of the restart file, which may itself come from a
# warm-started run (a chain of restarts); the same faults in time must be refused there too
# ---------------------------------------------------------------------------

WARM_FAULTS = ["none", "stop_wrong_side", "forcing_ends_early", "forcing_starts_late"]
WARM_BASES = [dict(chain=c, keep_start=k, reference=r, reverse=False)
              for c, k, r in itertools.product([1, 2], [True, False], [False, True])]


def build_warm(d, base, fault, param):
    rng = np.random.default_rng(param)
    k = int(rng.integers(1, 4))
    G = roms.make_grid(8, 9, N=2, hval=40.0, dx=100.0)
    T0 = scen.T0 + scen.S(3600)
    leg = 6  # steps per leg
    nlegs = base["chain"] + 1
    ft = [T0 + scen.S(s * DT) for s in range(-2, leg * (nlegs + 1) + 3, 2)]
    U, V = scen.vel_arrays(G, len(ft), {"kind": "const", "u": 0.03, "v": 0.01})
    fname, files = scen.write_forcing(d, G, ft, U, V, partition=[len(ft)])
    rows = [[e2e.iso(T0 + scen.S(s * DT)), 4.2, 3.6, 2.0] for s in (0, 2, 9, 14, 19)]
    e2e.write_release(d / "rel.rls", rows, ["release_time", "X", "Y", "Z"])
    ref = T0 - scen.S(86400) if base["reference"] else None
    restart_file = None
    t_restart = None
    for n in range(nlegs):
        last = n == nlegs - 1
        start = T0
        stop = (T0 if t_restart is None else t_restart) + scen.S(leg * DT)
        conf = e2e.base_conf(d, start, stop, DT, fname, d / "rel.rls", out=f"leg{n}.nc", period=2 * DT, reference=ref)
        conf["grid"]["filename"] = str(files[0])
        if restart_file is not None:
            conf["warm_start"] = {"filename": str(restart_file), "variables": []}
            if not base["keep_start"]:
                del conf["time"]["start"]
        if last:
            if fault == "stop_wrong_side":
                conf["time"]["stop"] = e2e.iso(t_restart - scen.S(k * DT))
            if fault == "forcing_ends_early":
                conf["time"]["stop"] = e2e.iso(ft[-1] + scen.S(k * DT))
            if fault == "forcing_starts_late":
                late = [t for t in ft if t > t_restart + scen.S((k - 1) * DT)]
                U2, V2 = scen.vel_arrays(G, len(late), {"kind": "const", "u": 0.03, "v": 0.01})
                f2, _ = scen.write_forcing(d, G, late, U2, V2, partition=[len(late)], stem="lateforcing")
                conf["forcing"]["filename"] = f2
        path = d / f"leg{n}.yaml"
        with open(path, "w", encoding="utf-8") as f:
            yaml.safe_dump(conf, f, sort_keys=False)
        if last:
            return path, f"leg{n}.nc", t_restart
        r = e2e.run_main(path)
        if r["status"] != "ok":
            raise core.HarnessError(f"leg {n} of a valid restart chain failed: {r['exc']}\n{(r['tb'] or '')[-400:]}")
        restart_file = d / f"leg{n}.nc"
        t_restart = e2e.read_sparse(restart_file)["times"][-1]
    raise AssertionError


def warm_oracle(case) -> core.CaseResult:
    res = core.CaseResult()
    base, fault, param = case["base"], case["fault"], case["param"]
    res.cls(f"warm_chain{base['chain']}:{fault}")
    with e2e.workdir() as d:
        path, outname, t_restart = build_warm(d, base, fault, param)
        r = e2e.run_main(path)
        nrec = 0
        if (d / outname).exists():
            try:
                nrec = len(e2e.read_sparse(d / outname)["times"])
            except Exception:  # noqa: BLE001
                nrec = 0
    res.nontrivial = True
    if fault == "none":
        res.check(r["status"] == "ok" and r["updates"] == 6 and nrec >= 3, "warm_base_not_clean",
                  f"unfaulted restart chain {base} does not run clean: {r['exc']} updates={r['updates']} records={nrec}\n"
                  f"{(r['tb'] or '')[-400:]}")
        return res
    res.check(r["status"] != "ok", "not_refused_warm",
              f"fault '{fault}' in restart chain {base} (restart time {t_restart}): the run completed normally "
              f"({r['updates']} steps, {nrec} records)")
    res.check(r["updates"] == 0, "simulation_started_warm",
              f"fault '{fault}' in restart chain {base}: {r['updates']} model steps were executed ({r['exc']})")
    res.check(nrec == 0, "records_written_warm",
              f"fault '{fault}' in restart chain {base}: {nrec} output records exist after the refused run ({r['exc']})")
    return res


def shard(cases, known):
    stt = core.Stats()
    core.enumerate_cases("fault", [c for c in cases if "chain" not in c["base"]], oracle, stt, known, stop_after=40)
    core.enumerate_cases("warm", [c for c in cases if "chain" in c["base"]], warm_oracle, stt, known, stop_after=40)
    return stt


def run(ctx):
    draws = ctx.n(3, 16)
    cases = [dict(base=b, fault="none", param=0) for b in BASES]
    for b in BASES:
        for f in FAULTS:
            for p in range(draws):
                cases.append(dict(base=b, fault=f, param=core.subseed(ctx.seed, f, p) % 10**6))
    for b in WARM_BASES:
        for f in WARM_FAULTS:
            for p in range(1 if f == "none" else draws):
                cases.append(dict(base=b, fault=f, param=core.subseed(ctx.seed, "w" + f, p) % 10**6))
    k = core.NWORKERS * 3
    chunks = [cases[i::k] for i in range(k)]
    stats = core.Stats()
    for s in core.pmap(shard, [(c, ctx.known_sigs) for c in chunks if c]):
        stats.merge(s)
    return stats, dict(
        rule=(f"every fault kind ({len(FAULTS)}) injected into every base scenario (16 = forward/reversed x single/"
              f"multi-file forcing x discrete/continuous x grid section given/omitted), {draws} parameter draw(s) each "
              "(how far out of range, which file, which spelling); the unfaulted bases must run clean; "
              "non-trivial = a faulted case; distinct = distinct (base, fault, parameter); part 'warm': the faults in "
              f"time ({len(WARM_FAULTS) - 1}) injected into {len(WARM_BASES)} warm-started bases (restart from a cold run's "
              "file or from the file of a run that was itself warm-started, start key kept or dropped, reference "
              "time configured or not)"),
        exhaustive=True,
        extra={"faults": FAULTS, "bases": len(BASES)},
        assumptions=["'stops with an error' = SystemExit or any exception out of ladim.main.main",
                     "'before the simulation starts' = Model.update never entered (counted by an in-process wrapper)"],
    )


def replay(part, case):
    return warm_oracle(case) if part == "warm" else oracle(case)
