"""C11 - random-walk diffusion has the configured variance and no bias."""

from __future__ import annotations

import math

import numpy as np
from hypothesis import strategies as st

from vlib import core, e2e

PID = "C11"
LEVEL = "exploration"
SIG = 6.5  # acceptance band in standard errors (two-sided tail ~ 8e-11 per test)


class OpenGrid:
    def __init__(self, dx, dy, h):
        self.dx, self.dy, self.h = dx, dy, h
        self.xmin, self.xmax, self.ymin, self.ymax = -1e12, 1e12, -1e12, 1e12

    def metric(self, X, Y):
        return self.dx * np.ones_like(X), self.dy * np.ones_like(Y)

    def depth(self, X, Y):
        return self.h * np.ones_like(X)

    def ingrid(self, X, Y):
        return np.ones(len(X), bool)

    def atsea(self, X, Y):
        return np.ones(len(X), bool)


class Still:
    def __init__(self, u=0.0, v=0.0):
        self.u, self.v = u, v
        self.variables = {}

    def velocity(self, X, Y, Z, fractional_step=0, method="bilinear"):
        return self.u + 0 * X, self.v + 0 * Y


def logu(lo, hi):
    return st.floats(math.log(lo), math.log(hi)).map(math.exp)


@st.composite
def cases(draw, nmax):
    return dict(D=draw(logu(1e-6, 1e3)), Dz=draw(st.one_of(st.just(0.0), logu(1e-6, 1e3))),
                dt=draw(st.sampled_from([1, 60, 600, 3600, 86400])), dx=draw(logu(10, 2e4)),
                ratio=draw(st.sampled_from([1.0, 0.5, 3.0])), steps=draw(st.integers(1, 50)),
                n=draw(st.sampled_from([10000, 10000, nmax])), seed=draw(st.integers(0, 2**31 - 1)),
                # the cloud comes out of a restart file with single-precision positions (ladim.warm_start)
                warm=draw(st.sampled_from([False, False, True])),
                # vertical advection switched on together with vertical diffusion: a constant w shifts the cloud by
                # w*t (here at most two standard deviations) and must leave its spread alone
                vadv=draw(st.sampled_from([False, False, True])), wfrac=draw(st.floats(-2.0, 2.0)))


def w_of(case, Dz):
    if not (case.get("vadv") and Dz > 0):
        return 0.0
    return case["wfrac"] * math.sqrt(2 * Dz * case["dt"] * case["steps"]) / (case["dt"] * case["steps"])


def make(case, D, Dz, dx, seed, n, u=0.0):
    from ladim.state import State
    from ladim.tracker import Tracker

    dy = dx * case["ratio"]
    sig_tot = math.sqrt(2 * max(Dz, 1e-30) * case["dt"] * case["steps"])
    h = 40 * sig_tot + 1.0
    state = State()
    if case.get("warm"):
        from netCDF4 import Dataset

        from ladim.warm_start import warm_start

        with e2e.workdir() as d:
            with Dataset(d / "restart.nc", "w") as nc:
                nc.createDimension("time", None)
                nc.createDimension("particle_instance", None)
                tv = nc.createVariable("time", "f8", ("time",))
                tv.units = "seconds since 2000-01-01T00:00:00"
                tv[:] = [0.0]
                nc.createVariable("particle_count", "i4", ("time",))[:] = [n]
                nc.createVariable("pid", "i4", ("particle_instance",))[:] = np.arange(n)
                for nm, val in (("X", 250.0), ("Y", 250.0), ("Z", h / 2)):
                    nc.createVariable(nm, "f4", ("particle_instance",))[:] = np.full(n, val, "f4")
                nc.particles_released = n
            warm_start(str(d / "restart.nc"), [], state)
    else:
        state.append(X=np.full(n, 250.0), Y=np.full(n, 250.0), Z=np.full(n, h / 2))

    class Timer:
        pass

    Timer.dt = np.timedelta64(case["dt"], "s")
    kw = {}
    if D > 0:
        kw["diffusion"] = D
    if Dz > 0:
        kw["vertdiff"] = Dz
    force = Still(u, -u)
    if case.get("vadv") and Dz > 0:
        kw["vertical_advection"] = True
        force.variables["w"] = np.full(n, w_of(case, Dz))
    tr = Tracker(modules=dict(state=state, grid=OpenGrid(dx, dy, h), time=Timer(), forcing=force),
                 advection="EF" if u else "", **kw)
    tr.rng = np.random.default_rng(seed)
    return tr, state, h


def corr(a, b):
    a = a - a.mean()
    b = b - b.mean()
    den = math.sqrt(float(a @ a) * float(b @ b))
    return float(a @ b) / den if den > 0 else 0.0


def oracle(case) -> core.CaseResult:
    e2e.quiet()
    res = core.CaseResult()
    n, m, dt = case["n"], case["steps"], case["dt"]
    if n * m > 2_000_000:
        m = max(1, 2_000_000 // n)
    case = dict(case, steps=m)
    D, Dz, dx = case["D"], case["Dz"], case["dx"]
    dy = dx * case["ratio"]
    tr, state, h = make(case, D, Dz, dx, case["seed"], n)
    X0, Y0, Z0 = np.array(state.X), np.array(state.Y), np.array(state.Z)
    firsts = []
    prevX, prevY, prevZ = X0, Y0, Z0
    for k in range(m):
        tr.update()
        if k < 2:
            firsts.append((np.array(state.X) - prevX, np.array(state.Y) - prevY, np.array(state.Z) - prevZ))
            prevX, prevY, prevZ = np.array(state.X), np.array(state.Y), np.array(state.Z)
    dX, dY, dZ = np.array(state.X) - X0, np.array(state.Y) - Y0, np.array(state.Z) - Z0
    res.cls("with_Dz" if Dz > 0 else "horizontal_only")
    if case.get("warm"):
        res.cls("cloud_from_single_precision_restart_file")
    res.nontrivial = True
    band_var = SIG * math.sqrt(2.0 / (n - 1))
    band_cor = SIG / math.sqrt(n)
    comps = [("X", dX, 2 * D * dt * m / dx**2), ("Y", dY, 2 * D * dt * m / dy**2)]
    if Dz > 0:
        comps.append(("Z", dZ - w_of(case, Dz) * dt * m, 2 * Dz * dt * m))
        if case.get("vadv"):
            res.cls("vertical_advection_and_diffusion")
    for name, d, s2 in comps:
        sd = math.sqrt(s2)
        res.check(abs(d.mean()) <= SIG * sd / math.sqrt(n), f"bias_{name}",
                  f"{name}: mean displacement {d.mean():.4g} vs standard error {sd / math.sqrt(n):.4g} "
                  f"(D={D:.4g}, Dz={Dz:.4g}, dt={dt}, dx={dx:.4g}, steps={m}, n={n})")
        ratio = d.var(ddof=1) / s2
        res.check(abs(ratio - 1) <= band_var, f"variance_{name}",
                  f"{name}: sample variance / (2*D*t in this unit) = {ratio:.5f}, band +-{band_var:.5f} "
                  f"(D={D:.4g}, Dz={Dz:.4g}, dt={dt}, dx={dx:.4g}, dy={dy:.4g}, steps={m}, n={n})")
        c = corr(d[:-1], d[1:])
        res.check(abs(c) <= band_cor * 1.01, f"neighbour_correlation_{name}",
                  f"{name}: correlation between neighbouring particles {c:.4f}, band {band_cor:.4f}")
    c = corr(dX, dY)
    res.check(abs(c) <= band_cor, "xy_correlation", f"X-Y displacement correlation {c:.4f}, band {band_cor:.4f}")
    if Dz > 0:
        for nm, d in (("X", dX), ("Y", dY)):
            c = corr(d, dZ)
            res.check(abs(c) <= band_cor, "xz_correlation", f"{nm}-Z correlation {c:.4f}, band {band_cor:.4f}")
    if len(firsts) == 2:
        for idx, nm in ((0, "X"), (1, "Y"), (2, "Z")):
            if nm == "Z" and Dz == 0:
                continue
            c = corr(firsts[0][idx], firsts[1][idx])
            res.check(abs(c) <= band_cor, f"step_correlation_{nm}",
                      f"{nm}: correlation between consecutive steps {c:.4f}, band {band_cor:.4f}")
        res.cls("multi_step")
    return res


@st.composite
def meta_cases(draw):
    return dict(D=draw(logu(1e-4, 1e2)), Dz=draw(logu(1e-4, 1e2)), dt=draw(st.sampled_from([60, 600, 3600])),
                dx=draw(logu(50, 5e3)), ratio=draw(st.sampled_from([1.0, 2.0])), steps=draw(st.integers(1, 4)),
                seed=draw(st.integers(0, 2**31 - 1)), seed2=draw(st.integers(0, 2**31 - 1)), u=draw(st.floats(0.01, 0.5)))


def meta_oracle(case) -> core.CaseResult:
    e2e.quiet()
    res = core.CaseResult()
    n = 500
    base = []

    def run(D, Dz, dx, seed, u=0.0):
        tr, state, h = make(case, D, Dz, dx, seed, n, u=u)
        for _ in range(case["steps"]):
            tr.update()
        base.append(h)
        return np.array(state.X) - 250.0, np.array(state.Y) - 250.0, np.array(state.Z) - h / 2

    D, Dz, dx = case["D"], case["Dz"], case["dx"]
    a = run(D, Dz, dx, case["seed"])
    b = run(4 * D, 4 * Dz, dx, case["seed"])
    for nm, x, y in zip("XYZ", a, b):
        # displacements are differences of positions near 250 (resp. h/2): absolute rounding ~1e-13 / 1e-15*h
        atol = 1e-11 if nm != "Z" else 1e-13 * max(base)
        res.check(np.allclose(y, 2 * x, rtol=1e-9, atol=atol), "scaling_D",
                  f"{nm}: quadrupling D with the same seed does not double the displacements")
    c = run(D, Dz, 2 * dx, case["seed"])
    res.check(np.allclose(c[0], 0.5 * a[0], rtol=1e-9, atol=1e-11) and np.allclose(c[1], 0.5 * a[1], rtol=1e-9, atol=1e-11), "scaling_dx",
              "doubling the grid spacing with the same seed does not halve the grid-unit displacement")
    res.check(np.allclose(c[2], a[2], rtol=1e-9, atol=1e-13 * max(base)), "scaling_dx_z", "vertical displacement depends on the grid spacing")
    if case["seed2"] != case["seed"]:
        e = run(D, Dz, dx, case["seed2"])
        res.check(not np.array_equal(e[0], a[0]), "seed_ignored", "different seeds give the same cloud")
    # determinism with the coefficients at zero (moving water so that there is something to compare)
    z1 = run(0.0, 0.0, dx, case["seed"], u=case["u"])
    z2 = run(0.0, 0.0, dx, case["seed2"] + 1, u=case["u"])
    res.check(all(np.array_equal(p, q) for p, q in zip(z1, z2)), "nondeterministic_at_zero",
              "with D = Dz = 0 two runs with different generators differ")
    want = case["u"] * case["dt"] * case["steps"] / dx
    res.check(np.allclose(z1[0], want, rtol=1e-9, atol=1e-11), "zero_diffusion_drift", f"pure advection displacement {z1[0][0]} expected {want}")
    res.nontrivial = True
    return res



class TwoRegionGrid(OpenGrid):
    """Metric dx_a for X < 500, dx_b beyond (isotropic per region)."""

    def __init__(self, dxa, dxb, h):
        super().__init__(dxa, dxa, h)
        self.dxa, self.dxb = dxa, dxb

    def metric(self, X, Y):
        d = np.where(np.asarray(X) < 500.0, self.dxa, self.dxb)
        return d, d.copy()


@st.composite
def swap_cases(draw):
    return dict(D=draw(logu(1e-4, 1e2)), dt=draw(st.sampled_from([60, 600, 3600])), dxa=draw(logu(50, 2000)),
                fac=draw(st.sampled_from([3.0, 0.25, 5.0])), steps=draw(st.integers(2, 5)), at=draw(st.integers(1, 4)),
                n=20000, seed=draw(st.integers(0, 2**31 - 1)), share=draw(st.sampled_from([0.25, 0.5])))


def swap_oracle(case) -> core.CaseResult:
    """Two clouds in regions with different grid spacing; between two steps some particles of the first cloud die
    and are removed while exactly as many new ones are released in the second region (what a sparse output record
    plus a release do in one model step).  Every particle's displacement, scaled by its own region's spacing and
    its own number of steps, is standard normal."""
    from ladim.state import State
    from ladim.tracker import Tracker

    e2e.quiet()
    res = core.CaseResult()
    n, m, dt, D = case["n"], case["steps"], case["dt"], case["D"]
    at = min(case["at"], m - 1)
    dxa, dxb = case["dxa"], case["dxa"] * case["fac"]
    half = n // 2
    state = State()
    state.append(X=np.concatenate([np.full(half, 250.0), np.full(n - half, 750.0)]), Y=np.full(n, 250.0), Z=np.full(n, 5.0))

    class Timer:
        pass

    Timer.dt = np.timedelta64(dt, "s")
    tr = Tracker(modules=dict(state=state, grid=TwoRegionGrid(dxa, dxb, 1000.0), time=Timer(), forcing=Still()),
                 advection="", diffusion=D)
    tr.rng = np.random.default_rng(case["seed"])
    k = int(case["share"] * half)
    X0 = np.array(state.X).copy()
    born = np.zeros(n, int)
    for step in range(m):
        if step == at:
            al = np.array(state["alive"]).copy()
            al[:k] = False
            state["alive"] = al
            state.compactify()
            state.append(X=np.full(k, 750.0), Y=np.full(k, 250.0), Z=np.full(k, 5.0))
            X0 = np.concatenate([X0[k:], np.full(k, 750.0)])
            born = np.concatenate([born[k:], np.full(k, step)])
        tr.update()
    X1 = np.array(state.X)
    if not res.check(len(X1) == n and bool(np.all(state.alive)), "swap_setup", "particles lost in still water far from any boundary"):
        return res
    dx_own = np.where(X0 < 500.0, dxa, dxb)
    z = (X1 - X0) * dx_own / np.sqrt(2 * D * dt * (m - born))
    groups = {"first_region_survivors": X0 < 500.0, "second_region_old": (X0 >= 500.0) & (born == 0), "released_at_the_swap": born > 0}
    for name, sel in groups.items():
        ng = int(sel.sum())
        ratio = float(z[sel].var(ddof=1))
        band = SIG * math.sqrt(2.0 / (ng - 1))
        res.check(abs(ratio - 1) <= band, "variance_after_swap",
                  f"{name} ({ng} particles): variance of the displacement in units of sqrt(2*D*t)/dx(own region) is {ratio:.4f}, "
                  f"band 1 +- {band:.4f} (dx {dxa:.4g} / {dxb:.4g}, swap of {k} before step {at} of {m})")
        res.check(abs(float(z[sel].mean())) <= SIG / math.sqrt(ng), "bias_after_swap", f"{name}: mean {z[sel].mean():.4g}")
    res.nontrivial = True
    return res


def shard(part, n, seed, known, nmax):
    stt = core.Stats()
    if part == "swap":
        core.drive(part, swap_cases(), swap_oracle, n, seed, stt, known)
    elif part == "cloud":
        core.drive(part, cases(nmax), oracle, n, seed, stt, known)
    else:
        core.drive(part, meta_cases(), meta_oracle, n, seed, stt, known)
    return stt


def run(ctx):
    nmax = ctx.n(100000, 1000000)
    jobs = [("cloud", k, core.subseed(ctx.seed, "c", i), ctx.known_sigs, nmax)
            for i, k in enumerate(core.split(ctx.n(1400, 8000), 12))]
    jobs += [("swap", k, core.subseed(ctx.seed, "s", i), ctx.known_sigs, nmax)
             for i, k in enumerate(core.split(ctx.n(300, 3000), 2))]
    jobs += [("meta", k, core.subseed(ctx.seed, "m", i), ctx.known_sigs, nmax)
             for i, k in enumerate(core.split(ctx.n(400, 4000), 2))]
    stats = core.Stats()
    for s in core.pmap(shard, jobs):
        stats.merge(s)
    return stats, dict(
        rule=("cloud: D, Dz log-uniform in [1e-6, 1e3], dt 1 s..1 day, dx log-uniform [10, 2e4] m with dx != dy, 1..50 "
              "steps, 1e4..1e5 (thorough 1e6) particles from one point in still water on an open plug-in grid, "
              "Hypothesis-drawn generator seed; mean, variance, X-Y / X-Z / step-to-step / neighbour correlations inside "
              f"{SIG}-sigma bands; meta: exact scaling under a shared seed (D->4D, dx->2dx), seed sensitivity, bitwise "
              "determinism at D = Dz = 0; every case counts as non-trivial (D > 0, n >= 1e4)"),
        assumptions=[f"statistical acceptance at {SIG} standard errors: false-alarm probability ~8e-11 per test, "
                     "< 1e-5 per thorough run", "vertical boundaries are > 20 sigma away (no reflection censors the sample)",
                     "Tracker.rng replaced by a seeded numpy Generator after construction"],
    )


def replay(part, case):
    return {"cloud": oracle, "swap": swap_oracle}.get(part, meta_oracle)(case)
