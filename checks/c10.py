"""C10 - backward tracking = forward tracking in the time-mirrored, sign-flipped flow."""

from __future__ import annotations

import copy

import numpy as np
from hypothesis import strategies as st

from vlib import core, e2e, sim

PID = "C10"
LEVEL = "exploration"
TOL = 1e-9


@st.composite
def cases(draw, max_steps=14):
    scn = draw(sim.scenario(max_steps=max_steps, reverse=True, layouts=("sparse",), min_gap=1, numrec=(0, 0, 2),
                            lonlat=(False,), dtypes=("f8",), ref_kinds=("none", "before", "after")))
    scn["forcing"]["vel"]["kind"] = draw(st.sampled_from(["shear", "noise", "shear", "const"]))
    # forcing frames that do not fall on model steps (e.g. half-hour stamps with an hourly step): the mirror
    # relation holds whatever convention assigns such a frame to the time axis
    if draw(st.sampled_from([False, False, True])):
        scn["forcing"]["offgrid"] = draw(st.lists(st.sampled_from([0, 1, 20, 30, 59]), min_size=1, max_size=4))
    # velocity packed as 16-bit integers over the whole integer range (strong currents saturate at -32768 / 32767)
    if draw(st.sampled_from([False, False, True])):
        scn["forcing"]["packed"] = draw(st.sampled_from([0.4, 0.7, 0.95]))
        scn["forcing"]["temp"] = False
        scn["pvars"] = [v for v in scn["pvars"] if v != "temp"]
    scn["grid"]["metric"] = draw(st.sampled_from([None, "varying"]))  # cell sizes that differ between cells
    return scn


def records(d, names):
    out = []
    for n in names:
        f = e2e.read_sparse(d / n)
        for t, rec in zip(f["times"], f["records"]):
            out.append((t, rec))
    return out


def oracle(scn) -> core.CaseResult:
    res = core.CaseResult()
    fwd = copy.deepcopy(scn)
    fwd["time"]["reverse"] = False
    res.cls("continuous" if scn["release"]["continuous"] else "discrete")
    res.cls(scn["tracker"]["advection"])
    res.cls("multi_file" if len(scn["forcing"]["partition"]) > 1 else "single_file")
    if any(scn["forcing"].get("offgrid") or []):
        res.cls("frames_between_model_steps")
    with e2e.workdir() as da, e2e.workdir() as db:
        ra, ma = sim.run(da, scn, record_output=False)
        rb, mb = sim.run(db, fwd, record_output=False, vel_sign=-1.0)
        if not res.check(ra["status"] == "ok", "reversed_run_fails", f"{ra['exc']}\n{(ra['tb'] or '')[-600:]}"):
            return res
        if not res.check(rb["status"] == "ok", "forward_run_fails", f"{rb['exc']}\n{(rb['tb'] or '')[-600:]}"):
            return res
        A = records(da, e2e.list_outputs(da))
        B = records(db, e2e.list_outputs(db))
    S = ma["start"]
    tol = TOL
    if scn["forcing"].get("packed"):
        # both runs compute in 32-bit floats and interpolate in time from opposite ends: per step a velocity
        # difference of a few (gap + 4) float32 roundings of |u| <= 2 m/s, accumulated over the run
        res.cls("velocity_packed_full_int16_range")
        tol = 4 * (max(scn["forcing"]["gaps"]) + 4) * 2.0**-23 * 2.0 * (2 * sim.DT / sim.DX) * (scn["time"]["nsteps"] + 1)
    dt = np.timedelta64(sim.DT, "s")
    p = scn["output"]["period"]
    res.check(len(A) == len(B), "record_count", f"{len(A)} records reversed, {len(B)} forward")
    first_seen = {}
    for k, ((ta, ra_), (tb, rb_)) in enumerate(zip(A, B)):
        res.check(ta == S - k * p * dt, "reversed_clock",
                  f"record {k} of the reversed run has time {ta}, expected {S - k * p * dt}")
        res.check(tb == S + k * p * dt, "forward_clock", f"record {k} of the forward run has time {tb}")
        pa, pb = [int(x) for x in ra_["pid"]], [int(x) for x in rb_["pid"]]
        if not res.check(pa == pb, "pid_set", f"record {k}: reversed pids {pa}, mirrored forward pids {pb}"):
            break
        for i, tg in enumerate(ra_["tag"]):
            first_seen.setdefault((int(ra_["pid"][i]), int(tg)), k)
        bad = None
        for var in ("X", "Y", "Z", "tag", "age", "temp"):
            if var in ra_ and not np.allclose(ra_[var], rb_[var], rtol=tol, atol=tol, equal_nan=True):
                bad = var
                break
        if not res.check(bad is None, "position" if bad in ("X", "Y", "Z") else "state_value",
                         f"record {k} ({ta}): {bad} reversed {ra_.get(bad)} vs mirrored forward {rb_.get(bad)}"):
            break
    # each release happens at its stated time (visible when that step is an output step)
    if not scn["release"]["continuous"]:
        by_tag = {}
        for r in scn["release"]["rows"]:
            by_tag[r["tag"]] = r["step"]
        for (pid, tg), k in first_seen.items():
            stp = by_tag.get(tg)
            if stp is not None and stp % p == 0 and stp // p < len(A):
                res.check(k == stp // p, "release_time",
                          f"pid {pid} (tag {tg}) stated release at step {stp} first appears in record {k} "
                          f"(time {A[k][0]}), expected record {stp // p}")
    nrel = len(set(r["step"] for r in scn["release"]["rows"]))
    gaps = scn["forcing"]["gaps"]
    handover = any(0 < c - scn["time"]["pre"] < scn["time"]["nsteps"] for c in np.cumsum(gaps))
    res.nontrivial = (nrel >= 2 or scn["release"]["continuous"]) and handover and scn["forcing"]["vel"]["kind"] != "const"
    return res


def shard(n, seed, known, max_steps):
    stt = core.Stats()
    core.drive("mirror", cases(max_steps), oracle, n, seed, stt, known)
    return stt


def run(ctx):
    jobs = [(k, core.subseed(ctx.seed, "m", i), ctx.known_sigs, ctx.n(14, 40))
            for i, k in enumerate(core.split(ctx.n(1200, 12000), 16))]
    stats = core.Stats()
    for s in core.pmap(shard, jobs):
        stats.merge(s)
    return stats, dict(
        rule=("generated reversed simulations (several forcing files, irregular frame gaps incl. 1 step, release tables "
              "with several times, discrete/continuous, EF/RK2/RK4, scripted kills, scalar forcing; in a third of the cases "
              "forcing frames that fall between model steps) paired with the "
              "forward run on the mirrored time axis with sign-flipped velocity frames and mirrored release times; "
              "record k of both runs must hold the same pids at the same positions (1e-9), reversed record times must "
              "read S - k*period*dt; non-trivial = >= 2 release times, a frame hand-over inside the run, non-steady field"),
        assumptions=["f8 forcing and output; tolerance 1e-9 (the two runs interpolate in time from opposite ends)"],
    )


def replay(part, case):
    return oracle(case)
