"""C03 - forcing in time: linear between bracketing frames for any frame/file layout."""

from __future__ import annotations

import numpy as np
from hypothesis import strategies as st

from vlib import core, e2e, roms, scen

PID = "C03"
LEVEL = "exploration"
DT = 600
JM, IM, N = 7, 8, 3
NPROBE = 10


@st.composite
def layouts(draw, max_frames=10):
    kind = draw(st.sampled_from(["unit", "equal", "irregular", "irregular", "mixed"]))
    nfr = draw(st.integers(2, max_frames))
    if kind == "unit":
        gaps = [1] * (nfr - 1)
    elif kind == "equal":
        gaps = [draw(st.sampled_from([2, 3, 4, 6, 12]))] * (nfr - 1)
    elif kind == "mixed":
        gaps = [draw(st.sampled_from([1, 1, 2, 3])) for _ in range(nfr - 1)]
    else:
        gaps = [draw(st.sampled_from([1, 2, 3, 4, 6, 12])) for _ in range(nfr - 1)]
    total = sum(gaps)
    pk = draw(st.sampled_from(["one", "each", "random", "random"]))
    if pk == "one":
        part = [nfr]
    elif pk == "each":
        part = [1] * nfr
    else:
        part = []
        left = nfr
        while left:
            k = draw(st.integers(1, min(left, 4)))
            part.append(k)
            left -= k
    s0 = draw(st.one_of(st.just(0), st.integers(0, total - 1)))
    nsteps = draw(st.integers(1, min(total - s0, 30)))
    return dict(gaps=gaps, partition=part, s0=s0, nsteps=nsteps, reverse=draw(st.booleans()),
                scalars=draw(st.sampled_from([[], ["temp"], ["temp", "salt"]])),
                storage=draw(st.sampled_from(["f8", "f8", "f4"])), seed=draw(st.integers(0, 10**6)),
                # optionally every file has its own storage (float, or packed with its own scale_factor / add_offset)
                late=draw(st.sampled_from([0, 0, 0, 1, 2, 3, 5])),
                storages=draw(st.one_of(st.none(), st.lists(st.sampled_from(["f8", "f4", "p1", "p2", "p3"]),
                                                            min_size=2, max_size=4))),
                mask=draw(st.sampled_from(["none", "islands"])), h=draw(st.sampled_from(["flat", "noise"])),
                # which look-ahead fractions are asked for in every step, in this order (EF none beyond the step
                # itself, RK2 one half, RK4 one half twice and a whole; a plug-in any fixed fraction)
                # every file may count its time in its own unit from its own epoch
                funits=draw(st.sampled_from([None, None, ["seconds since 1970-01-01 00:00:00", "seconds since 2000-03-01 00:00:00"],
                                             ["hours since 1990-01-01 00:00:00", "seconds since 1970-01-01 00:00:00",
                                              "days since 1948-01-01 00:00:00"]])),
                fracs=draw(st.sampled_from([[0.5, 1.0], [0.5, 1.0], [0.5], [1.0], [0.5, 0.5, 1.0], [0.25], [0.75, 0.75]])))


def setup(d, case):
    G = roms.make_grid(JM, IM, N=N, h=case["h"], hval=60.0, mask=case["mask"], dx=500.0, seed=case["seed"],
                       levels="random")
    c = np.concatenate([[0], np.cumsum(case["gaps"])]).astype(int)
    nfr = len(c)
    rng = np.random.default_rng(case["seed"])
    U = rng.uniform(-1, 1, (nfr, N, JM, IM - 1))
    V = rng.uniform(-1, 1, (nfr, N, JM - 1, IM))
    extra = {nm: rng.uniform(0, 30, (nfr, N, JM, IM)) for nm in case["scalars"]}
    sgn = -1 if case["reverse"] else 1
    T = scen.T0 + scen.S(86400)
    ftimes = [T + scen.S(sgn * int(ck) * DT) for ck in c]
    order = np.argsort(np.array(ftimes))
    part = case["partition"] if not case["reverse"] else case["partition"][::-1]
    # write in time-ascending order, remember decoded arrays per frame index k (simulation order)
    files = []
    dec = {nm: [None] * nfr for nm in ["u", "v", *case["scalars"]]}
    a = 0
    for n, cnt in enumerate(part):
        idx = order[a:a + cnt]
        path = d / f"f_{n:03d}.nc"
        stor = case["storage"]
        if case.get("storages"):
            stor = {"f8": "f8", "f4": "f4", "p1": ("i2", 1e-4), "p2": ("i2", 2.5e-4), "p3": ("i2", 1e-3)}[
                case["storages"][n % len(case["storages"])]]
        got = roms.write_roms(path, G, [ftimes[i] for i in idx], U[idx], V[idx],
                              extra={k: v[idx] for k, v in extra.items()}, storage=stor,
                              time_units=(case["funits"][n % len(case["funits"])] if case.get("funits") else None))
        for nm in dec:
            for pos, i in enumerate(idx):
                dec[nm][i] = np.asarray(got[nm][pos], dtype=float)
        files.append(path)
        a += cnt
    start = T + scen.S(sgn * case["s0"] * DT)
    stop = start + scen.S(sgn * case["nsteps"] * DT)
    return G, c, dec, files, start, stop


def probes(G, seed):
    rng = np.random.default_rng(seed + 99)
    X = rng.uniform(1.6, IM - 2.6, NPROBE)
    Y = rng.uniform(1.6, JM - 2.6, NPROBE)
    X[0], Y[0] = 3.0, 3.0          # on a rho point
    X[1], Y[1] = 3.25, 2.0         # on a grid line (exact half positions are left to C02)
    J = np.round(Y).astype(int)
    I = np.round(X).astype(int)
    Z = rng.uniform(0, 1, NPROBE) * G["h"][J, I]
    Z[2] = 0.0
    Z[3] = G["h"][J[3], I[3]]
    return X, Y, Z


def oracle(case) -> core.CaseResult:
    from ladim.model import init_module

    e2e.quiet()
    res = core.CaseResult()
    gaps = case["gaps"]
    res.cls("gap1_present" if 1 in gaps else "no_gap1")
    res.cls("all_gap1" if set(gaps) == {1} else ("equal_gaps" if len(set(gaps)) == 1 else "irregular"))
    res.cls("reversed" if case["reverse"] else "forward")
    res.cls("look_ahead_pattern_" + "_".join(str(f) for f in case.get("fracs", (0.5, 1.0))))
    res.cls("multi_file" if len(case["partition"]) > 1 else "single_file")
    if case.get("funits") and len(case["partition"]) > 1:
        res.cls("files_count_time_in_their_own_units")
    if case.get("storages") and len(case["partition"]) > 1 and len(set(case["storages"][:len(case["partition"])])) > 1:
        res.cls("files_stored_differently")
    with e2e.workdir() as d:
        G, c, dec, files, start, stop = setup(d, case)
        zr = roms.grid_zr(G)
        X, Y, Z = probes(G, case["seed"])
        sgn = -1.0 if case["reverse"] else 1.0
        nfr = len(c)
        # spatial reference per frame (linear in the field, so lerp commutes)
        RU = np.empty((nfr, NPROBE))
        RV = np.empty((nfr, NPROBE))
        KA = []
        for k in range(nfr):
            for p in range(NPROBE):
                RU[k, p], RV[k, p], _, _, ka = roms.ref_velocity_one(G, zr, dec["u"][k], dec["v"][k], X[p], Y[p], Z[p])
                if k == 0:
                    KA.append(ka)
        maxF = 1.0
        eps = 2.0**-23 if (case["storage"] == "f4" or case.get("storages")) else 1e-13
        tol = (max(gaps) + 4) * eps * maxF * 4
        modules = {}
        try:
            ivars = {nm: "float" for nm in case["scalars"]}
            modules["state"] = init_module("state", {"instance_variables": ivars,
                                                     "default_values": {nm: 0.0 for nm in ivars}}, modules)
            tconf = {"start": e2e.iso(start), "stop": e2e.iso(stop), "dt": DT}
            if case["reverse"]:
                tconf["time_reversal"] = True
            modules["time"] = init_module("time", tconf, modules)
            modules["grid"] = init_module("grid", {"filename": str(files[0])}, modules)
            fname = str(files[0]) if len(files) == 1 else str(d / "f_*.nc")
            fconf = {"filename": fname}
            if case["scalars"]:
                fconf["extra_forcing"] = list(case["scalars"])
            modules["forcing"] = init_module("forcing", fconf, modules)
        except BaseException as e:  # noqa: BLE001
            import traceback

            res.fail("setup_raises", f"{e!r}\n{traceback.format_exc()[-600:]}")
            return res
        state, timer, force = modules["state"], modules["time"], modules["forcing"]
        # the probes may enter some steps into the run (like a first release after the start): the forcing must
        # keep up with the clock while the state is empty
        late = min(int(case.get("late", 0)), case["nsteps"])
        if late == 0:
            state.append(X=X, Y=Y, Z=Z)
        else:
            res.cls("state_empty_at_first")
        s0 = case["s0"]
        total = int(c[-1])
        between = handover = False
        file_of = []
        for n_, cnt in enumerate(case["partition"]):
            file_of += [n_] * cnt
        for n in range(case["nsteps"] + 1):
            try:
                timer.update()
                if late and n == late:
                    state.append(X=X, Y=Y, Z=Z)  # Model.update order: clock, release, forcing
                force.update()
            except BaseException as e:  # noqa: BLE001
                import traceback

                res.fail("update_raises", f"step {n}: {e!r}\n{traceback.format_exc()[-500:]}")
                break
            if n < late:
                continue
            p = s0 + n
            a = int(np.searchsorted(c, p, side="right") - 1)
            if a >= nfr - 1:
                a, tau = nfr - 1, 0.0
                b = a
            else:
                b = a + 1
                tau = (p - c[a]) / (c[b] - c[a])
            if 0 < tau < 1:
                between = True
            if tau == 0 and n > 0:
                handover = True
                if file_of[a] != file_of[max(a - 1, 0)]:
                    res.cls("file_switch_in_run")
            wantU = sgn * ((1 - tau) * RU[a] + tau * RU[b])
            wantV = sgn * ((1 - tau) * RV[a] + tau * RV[b])
            gotU, gotV = force.velocity(X, Y, Z)
            errs = max(np.max(np.abs(gotU - wantU)), np.max(np.abs(gotV - wantV)))
            if not res.check(errs <= tol, "velocity_at_step" + ("_gap1" if (b > a and c[b] - c[a] == 1) or (a > 0 and c[a] - c[a - 1] == 1) else ""),
                             f"step {n} (pos {p}, frames {a}->{b}, tau {tau:.3f}): velocity error {errs:.3g} > {tol:.3g}; "
                             f"got u {gotU[:3]}, want {wantU[:3]}"):
                break
            vu, vv = force.variables["u"], force.variables["v"]
            res.check(max(np.max(np.abs(vu - wantU)), np.max(np.abs(vv - wantV))) <= tol, "variables_uv",
                      f"step {n}: forcing.variables u/v differ from the interpolated field")
            for f in case.get("fracs", (0.5, 1.0)):
                pf = p + f
                if pf > total:
                    continue
                af = int(np.searchsorted(c, pf, side="right") - 1)
                if af >= nfr - 1:
                    af, bf, tf = nfr - 1, nfr - 1, 0.0
                else:
                    bf = af + 1
                    tf = (pf - c[af]) / (c[bf] - c[af])
                wU = sgn * ((1 - tf) * RU[af] + tf * RU[bf])
                wV = sgn * ((1 - tf) * RV[af] + tf * RV[bf])
                gU, gV = force.velocity(X, Y, Z, fractional_step=f)
                ef = max(np.max(np.abs(gU - wU)), np.max(np.abs(gV - wV)))
                at_frame = tau == 0
                if at_frame:
                    res.cls("fractional_at_frame_step")
                if not res.check(ef <= tol, "fractional" + ("_at_frame" if at_frame else ""),
                                 f"step {n} (pos {p}) fractional_step {f}: error {ef:.3g} > {tol:.3g}; got {gU[:3]} want {wU[:3]}"):
                    break
            for nm in case["scalars"]:
                got = np.asarray(force.variables[nm], float)
                got_state = np.asarray(state[nm], float)
                res.check(np.array_equal(got, got_state), "scalar_state_copy",
                          f"step {n}: state[{nm}] differs from forcing.variables[{nm}]")
                frames_ok = [a] if (not case["reverse"] or tau == 0) else [a, b]
                for pi in range(NPROBE):
                    cands = []
                    for ci in roms.cell_candidates(X[pi]):
                        for cj in roms.cell_candidates(Y[pi]):
                            k, _ = roms.vert_weights(zr[:, cj, ci], Z[pi])
                            for fr in frames_ok:
                                F = dec[nm][fr]
                                cands += [F[k, cj, ci], F[max(k - 1, 0), cj, ci]]
                    okv = any(abs(got[pi] - cv) <= 1e-5 * max(1.0, abs(cv)) for cv in cands)
                    if not res.check(okv, "scalar_value" + ("_first" if n == 0 else ""),
                                     f"step {n} (pos {p}, frame {a}) {nm}[probe {pi}] = {got[pi]}, "
                                     f"expected one of {cands}"):
                        break
            if res.violations:
                break
        try:
            force.close()
        except Exception:  # noqa: BLE001,S110
            pass
        res.nontrivial = between and handover
        if s0 > 0 and len(case["partition"]) > 1:
            a0 = int(np.searchsorted(c, s0, side="right") - 1)
            if a0 + 1 < nfr and file_of[a0] != file_of[a0 + 1]:
                res.cls("first_read_straddles_files")
        if case["reverse"] and len(case["partition"]) > 1:
            res.cls("reversed_multi_file")
    return res


def shard(n, seed, known, max_frames):
    stt = core.Stats()
    core.drive("layout", layouts(max_frames=max_frames), oracle, n, seed, stt, known)
    return stt


def run(ctx):
    jobs = [(k, core.subseed(ctx.seed, "l", i), ctx.known_sigs, 10)
            for i, k in enumerate(core.split(ctx.n(4500, 60000), 16))]
    stats = core.Stats()
    for s in core.pmap(shard, jobs):
        stats.merge(s)
    return stats, dict(
        rule=("generated frame layouts (gaps from {1,2,3,4,6,12} steps, 2..10 frames, all partitions into files, "
              "start offset, run length, direction, 0..2 scalar fields, f4/f8); module-level drive of "
              "timer.update(); forcing.update() with per-step comparison at 10 static probes; "
              "non-trivial = at least one step strictly between two frames and one hand-over at a frame step"),
        assumptions=["spatial interpolation is linear in the field, so the time-lerp of per-frame spatial references "
                     "is the reference", "tolerance (maxgap+4)*eps*4 with eps = 2^-23 (f4) / 1e-13 (f8)",
                     "reversed runs: between frame steps a scalar may come from either bracketing frame"],
    )


def replay(part, case):
    return oracle(case)
