"""C13 - clock arithmetic: steps/times convert consistently; period spellings agree."""

from __future__ import annotations

import datetime

import numpy as np
from hypothesis import strategies as st

from vlib import core

PID = "C13"
LEVEL = "exploration"
EPOCH = 946684800  # 2000-01-01T00:00:00 in unix seconds
UNIT_S = {"s": 1, "m": 60, "h": 3600}
UNIT_NAME = {"s": "seconds", "m": "minutes", "h": "hours"}


def t64(sec):
    return np.datetime64(int(sec), "s")


def spell_time(sec, how):
    t = t64(sec)
    if how == "iso":
        return str(t)
    if how == "iso_space":
        return str(t).replace("T", " ")
    if how == "datetime":
        return t.astype(datetime.datetime)
    return t


def spell_period(n, how):
    """A spelling of n seconds (n > 0) or None if this spelling cannot express n."""
    if how == "int":
        return n
    if how == "timedelta":
        return datetime.timedelta(seconds=n)
    if how == "td64s":
        return np.timedelta64(n, "s")
    if how == "td64m":
        return np.timedelta64(n // 60, "m") if n % 60 == 0 else None
    if how == "td64h":
        return np.timedelta64(n // 3600, "h") if n % 3600 == 0 else None
    if how == "list_s":
        return [n, "s"]
    if how == "list_m":
        return [n // 60, "m"] if n % 60 == 0 else None
    if how == "list_h":
        return [n // 3600, "h"] if n % 3600 == 0 else None
    if how == "iso_s":
        return f"PT{n}S"
    if how == "iso_hms":
        h, r = divmod(n, 3600)
        m, s = divmod(r, 60)
        out = "PT" + (f"{h}H" if h else "") + (f"{m}M" if m else "") + (f"{s}S" if s else "")
        return out
    if how == "iso_full":
        h, r = divmod(n, 3600)
        m, s = divmod(r, 60)
        return f"PT{h}H{m}M{s}S"
    if how == "iso_ms":
        m, s = divmod(n, 60)
        return f"PT{m}M{s}S"
    raise ValueError(how)


PERIOD_SPELLINGS = ["int", "timedelta", "td64s", "td64m", "td64h", "list_s", "list_m", "list_h",
                    "iso_s", "iso_hms", "iso_full", "iso_ms"]

clock_cases = st.fixed_dictionaries(dict(
    start=st.integers(-40 * 86400, 40 * 86400),
    dt=st.one_of(st.integers(1, 86400), st.sampled_from([1, 30, 60, 600, 900, 3600, 7200, 86400])),
    q=st.integers(1, 60),
    r_frac=st.one_of(st.just(0.0), st.floats(0, 0.999)),
    reverse=st.booleans(),
    ref=st.one_of(st.none(), st.integers(-60 * 86400, 60 * 86400)),
    spell=st.tuples(st.sampled_from(["iso", "iso_space", "datetime", "dt64"]),
                    st.sampled_from(["iso", "iso_space", "datetime", "dt64"]),
                    st.sampled_from(["iso", "datetime", "dt64"])),
    dt_spell=st.sampled_from(PERIOD_SPELLINGS),
    probe=st.lists(st.integers(-50, 110), min_size=1, max_size=6),
    unit=st.sampled_from(["s", "m", "h"]),
))


def clock_oracle(case) -> core.CaseResult:
    from ladim.timekeeper import TimeKeeper

    res = core.CaseResult()
    dt = case["dt"]
    r = int(case["r_frac"] * dt)
    dur = case["q"] * dt + r
    sgn = -1 if case["reverse"] else 1
    start = EPOCH + case["start"]
    stop = start + sgn * dur
    ref = None if case["ref"] is None else EPOCH + case["ref"]
    dts = spell_period(dt, case["dt_spell"])
    if dts is None:
        dts = dt
    res.nontrivial = case["reverse"] or r != 0 or any(p < 0 for p in case["probe"])
    res.cls("reversed" if case["reverse"] else "forward")
    res.cls("dt_divides" if r == 0 else "dt_not_dividing")
    kw = dict(start=spell_time(start, case["spell"][0]), stop=spell_time(stop, case["spell"][1]),
              dt=dts, time_reversal=case["reverse"])
    if ref is not None:
        kw["reference"] = spell_time(ref, case["spell"][2])
    try:
        tk = TimeKeeper(**kw)
    except BaseException as e:  # noqa: BLE001
        res.fail("construct", f"valid clock refused: {e!r} {kw}")
        return res
    ref_eff = ref if ref is not None else min(start, stop)
    res.check(tk.Nsteps == dur // dt, "nsteps", f"Nsteps {tk.Nsteps} != {dur // dt}")
    res.check(tk.dt == np.timedelta64(dt, "s"), "dt", f"dt {tk.dt}")

    def T(n):
        return t64(start + sgn * n * dt)

    # running clock
    nrun = min(case["q"] + 3, 40)
    for n in range(nrun):
        tk.update()
        if not res.check(tk.step == n and tk.time == T(n), "running_clock",
                         f"after {n + 1} updates: step {tk.step} time {tk.time}, expected {n} {T(n)}"):
            break
        u = case["unit"]
        exp = (start + sgn * n * dt - ref_eff) / UNIT_S[u]
        got = tk.nctime(u)
        if not res.check(abs(got - exp) <= 1e-9 * max(1, abs(exp)), "nctime",
                         f"nctime({u}) at step {n}: {got} expected {exp}"):
            break
        res.check(abs(tk.step2nctime(tk.step, u) - got) <= 1e-9 * max(1, abs(exp)), "nctime_vs_step2nctime",
                  f"nctime {got} != step2nctime(step) {tk.step2nctime(tk.step, u)}")
    # conversions at probe steps
    for n in case["probe"]:
        tn = T(n)
        got = tk.step2time(n)
        res.check(got == tn, "step2time", f"step2time({n}) = {got}, expected {tn}")
        res.check(tk.time2step(tn) == n, "time2step", f"time2step({tn}) = {tk.time2step(tn)}, expected {n}")
        res.check(tk.time2step(str(tn)) == n, "time2step", f"time2step(str) {tk.time2step(str(tn))} != {n}")
        try:
            back = tk.step2time(tk.time2step(tn))
            res.check(back == tn, "roundtrip", f"step2time(time2step({tn})) = {back}")
        except Exception as e:  # noqa: BLE001
            res.fail("roundtrip", repr(e))
        iso = tk.step2isotime(n)
        res.check(isinstance(iso, str) and iso == str(tn), "isotime", f"step2isotime({n}) = {iso!r}, expected {tn}")
        for u in ("s", "m", "h"):
            exp = (start + sgn * n * dt - ref_eff) / UNIT_S[u]
            got = tk.step2nctime(n, u)
            res.check(abs(got - exp) <= 1e-9 * max(1, abs(exp)), "step2nctime",
                      f"step2nctime({n},{u}) = {got}, expected {exp}")
    for u in ("s", "m", "h"):
        cu = tk.cf_units(u)
        ok = cu.startswith(UNIT_NAME[u] + " since ")
        if ok:
            try:
                ok = np.datetime64(cu.split("since")[1].strip(), "s") == t64(ref_eff)
            except Exception:  # noqa: BLE001
                ok = False
        res.check(ok, "cf_units", f"cf_units({u}) = {cu!r}, reference {t64(ref_eff)}")
    tk.reset()
    res.check(tk.time == t64(start), "reset", f"reset -> {tk.time}")
    # The model's warm start puts the clock on the start time by assigning step and time (model.py); the clock
    # and its CF time value must read start +- n*dt from there on as well.
    # Done on the used clock and on a fresh one (the model assigns right after construction).
    u = case["unit"]
    for which, clock in (("used", tk), ("fresh", TimeKeeper(**kw))):
        clock.step = 0
        clock.time = clock.step2time(clock.step)
        for n in range(0, 4):
            if n:
                clock.update()
            exp = (start + sgn * n * dt - ref_eff) / UNIT_S[u]
            ok = clock.step == n and clock.time == T(n) and abs(clock.nctime(u) - exp) <= 1e-9 * max(1, abs(exp))
            if not res.check(ok, "clock_after_assignment",
                             f"{which} clock set to step 0 by assignment, {n} updates later: step {clock.step}, time "
                             f"{clock.time}, nctime({u}) {clock.nctime(u)}; expected {n}, {T(n)}, {exp}"):
                break
    return res


# ---- period spellings -------------------------------------------------------

period_cases = st.fixed_dictionaries(dict(
    n=st.one_of(st.integers(1, 10 * 86400),
                st.builds(lambda a, b: a * b, st.integers(1, 500), st.sampled_from([60, 3600]))),
))

MALFORMED_FIXED = ["", "PT", "P1D", "pt1h", "PT1.5H", "PT1M1H", "PT1S1M", "PT1H trailing", "1H", "T1H",
                   "PT-1H", "PT1H1H", " PT1H", "PT 1H", "PT1D", "P1H", "PTH", "PT1HM", "1:00:00",
                   [1.5, "h"], [1, "x"], [1, "h", 2], ["1", "h"], [], [1], None, 1.5, {"h": 1},
                   ("PT1H",), [None, "s"], "PT1H30", "PT1H30M10", "PT1h", "PT1H\t"]

mal_text = st.text(alphabet="PT0123456789HMSD.: -hms", min_size=0, max_size=10)


def period_oracle(case) -> core.CaseResult:
    from ladim.timekeeper import normalize_period

    res = core.CaseResult()
    n = case["n"]
    want = np.timedelta64(n, "s")
    used = 0
    for how in PERIOD_SPELLINGS:
        sp = spell_period(n, how)
        if sp is None:
            continue
        used += 1
        try:
            got = normalize_period(sp)
        except BaseException as e:  # noqa: BLE001
            res.fail("period_rejected", f"valid spelling {sp!r} rejected: {e!r}")
            continue
        ok = isinstance(got, np.timedelta64) and got == want and got.dtype == np.dtype("m8[s]")
        res.check(ok, "period_value", f"normalize_period({sp!r}) = {got!r} ({getattr(got, 'dtype', None)}), expected {want!r}")
    res.nontrivial = used >= 8
    res.cls(f"spellings_{used}")
    return res


def malformed_oracle(sp) -> core.CaseResult:
    import re

    from ladim.timekeeper import normalize_period

    res = core.CaseResult()
    if isinstance(sp, str) and re.fullmatch(r"PT(\d+H)?(\d+M)?(\d+S)?", sp) and sp != "PT":
        res.cls("actually_valid")
        return res  # a well-formed string: not a malformed case
    res.nontrivial = True
    res.cls("malformed_" + type(sp).__name__)
    try:
        got = normalize_period(sp)
    except ValueError:
        return res
    except BaseException as e:  # noqa: BLE001
        res.fail("malformed_wrong_exception", f"{sp!r}: raised {e!r} instead of ValueError")
        return res
    res.fail("malformed_accepted", f"malformed period {sp!r} accepted as {got!r}")
    return res



# ---- the clock inside a running model (cold and warm start) --------------------------------------


@st.composite
def model_cases(draw):
    from vlib import sim

    scn = draw(sim.scenario(max_steps=12, layouts=("sparse",), numrec=(1, 2, 3), lonlat=(False,), pvars=[],
                            ref_kinds=("none", "before", "after"), kills=False))
    scn["warm_point"] = draw(st.integers(0, 5))
    return scn


def model_oracle(scn) -> core.CaseResult:
    """Through ladim.main: a recording IBM notes (step, clock, CF time) in every step of a cold run and of a run
    warm-started from one of its files; the clock must read start +- n*dt, the CF value its offset from the
    reference time."""
    import copy

    from vlib import e2e, sim

    res = core.CaseResult()
    rev = scn["time"]["reverse"]
    sgn = -1 if rev else 1
    res.cls("model_reversed" if rev else "model_forward")
    dt = np.timedelta64(sim.DT, "s")

    def judge(log, t0, what, ref):
        steps = [e for e in log if e[0] == "ibm"]
        for e in steps:
            n, tstr = e[1], e[2]
            want = np.datetime64(t0, "s") + sgn * n * dt
            if not res.check(np.datetime64(tstr, "s") == want, "model_clock",
                             f"{what}: at step {n} the model clock reads {tstr}, expected {want}"):
                return False
        return bool(steps)

    with e2e.workdir() as d0, e2e.workdir() as d1:
        r0, m0 = sim.run(d0, scn, record_output=True, record_ibm=True)
        if not res.check(r0["status"] == "ok", "model_run_fails", f"{r0['exc']}"):
            return res
        if not judge(r0["log"], m0["start"], "cold start", m0["ref"]):
            return res
        for w in [e for e in r0["log"] if e[0] == "write"]:
            res.check(np.datetime64(w[2], "s") == np.datetime64(m0["start"], "s") + sgn * w[1] * dt, "model_clock",
                      f"cold start: record written at step {w[1]} with clock {w[2]}")
        res.nontrivial = True
        if rev:
            return res  # warm starts are exercised in forward time (as the restart property quantifies)
        numrec = scn["output"]["numrec"]
        points = []
        for k, wname in enumerate(e2e.list_outputs(d0)):
            fk = e2e.read_sparse(d0 / wname)
            done = int((fk["times"][-1] - m0["start"]) / dt) if len(fk["times"]) else 0
            if len(fk["times"]) == numrec and done < scn["time"]["nsteps"]:
                points.append((k, wname, done, fk["times"][-1]))
        if not points:
            return res
        k, wname, done, t_restart = points[scn["warm_point"] % len(points)]
        path, m1 = sim.build(d1, copy.deepcopy(scn), out_name=f"out_{k + 1:03d}.nc", record_output=True,
                             record_ibm=True, ibm_offset=done)
        conf = m1["conf"]
        del conf["time"]["start"]
        conf["warm_start"] = {"filename": str(d0 / wname),
                              "variables": ["tag", "age"] + (["temp"] if scn["forcing"]["temp"] else [])}
        e2e.write_yaml(conf, path)
        r1 = e2e.run_main(path)
        if not res.check(r1["status"] == "ok", "model_run_fails", f"warm start: {r1['exc']}\n{(r1['tb'] or '')[-400:]}"):
            return res
        judge(r1["log"], t_restart, f"warm start from {wname} at {t_restart}", None)
        for w in [e for e in r1["log"] if e[0] == "write"]:
            res.check(np.datetime64(w[2], "s") == np.datetime64(t_restart, "s") + w[1] * dt, "model_clock",
                      f"warm start from {wname}: record written at step {w[1]} with clock {w[2]}, restart time {t_restart}")
        res.cls("model_warm_start")
    return res


def shard(part, n, seed, known):
    stt = core.Stats()
    if part == "model":
        core.drive("model", model_cases(), model_oracle, n, seed, stt, known)
    elif part == "clock":
        core.drive("clock", clock_cases, clock_oracle, n, seed, stt, known)
    elif part == "period":
        core.drive("period", period_cases, period_oracle, n, seed, stt, known)
    else:
        core.enumerate_cases("malformed", MALFORMED_FIXED, malformed_oracle, stt, known)
        core.drive("malformed", mal_text, malformed_oracle, n, seed, stt, known)
    return stt


def run(ctx):
    n_clock = ctx.n(25000, 300000)
    n_per = ctx.n(6000, 60000)
    n_mal = ctx.n(8000, 60000)
    jobs = []
    for i, k in enumerate(core.split(ctx.n(240, 4000), 4)):
        jobs.append(("model", k, core.subseed(ctx.seed, "model", i), ctx.known_sigs))
    for i, k in enumerate(core.split(n_clock, 8)):
        jobs.append(("clock", k, core.subseed(ctx.seed, "clock", i), ctx.known_sigs))
    for i, k in enumerate(core.split(n_per, 2)):
        jobs.append(("period", k, core.subseed(ctx.seed, "period", i), ctx.known_sigs))
    for i, k in enumerate(core.split(n_mal, 2)):
        jobs.append(("malformed", k, core.subseed(ctx.seed, "mal", i), ctx.known_sigs))
    stats = core.Stats()
    for s in core.pmap(shard, jobs):
        stats.merge(s)
    return stats, dict(
        rule=("clock: generated (start, dt, duration=q*dt+r, direction, reference, spellings, probe steps); "
              "non-trivial = reversed or dt not dividing or negative probe step. period: every spelling of n "
              "seconds must normalise to n s; non-trivial = >= 8 spellings applicable. malformed: fixed list + "
              "random short strings that do not match the documented grammar must raise ValueError. model: generated "
              "end-to-end runs, cold (forward and reversed) and warm-started from a drawn file boundary, in which a "
              "recording IBM and a recording output note step and clock: the clock must read start +- n*dt"),
        assumptions=["integer-second reference arithmetic; units s, m, h as documented for step2nctime"],
    )


def replay(part, case):
    return {"clock": clock_oracle, "period": period_oracle, "malformed": malformed_oracle,
            "model": model_oracle}[part](case)
