"""C18 - one simulation, three spellings: YAML v2, TOML v2, legacy v1 give the same run."""

from __future__ import annotations

import copy

import numpy as np
import yaml
from hypothesis import strategies as st
from netCDF4 import Dataset

from vlib import core, e2e, roms, scen, sim

PID = "C18"
LEVEL = "exploration"
DT = 60


# ---------------------------------------------------------------------------
# minimal TOML writer (nested tables, scalars, lists)
# ---------------------------------------------------------------------------


def toml_value(v, native_dates):
    if isinstance(v, bool):
        return "true" if v else "false"
    if isinstance(v, (int, float)):
        return repr(v)
    if isinstance(v, str):
        if native_dates and len(v) == 19 and v[4] == "-" and v[10] == "T":
            return v  # offset-free local date-time
        return '"' + v.replace("\\", "\\\\").replace('"', '\\"') + '"'
    if isinstance(v, (list, tuple)):
        return "[" + ", ".join(toml_value(x, native_dates) for x in v) + "]"
    if isinstance(v, dict):
        return "{" + ", ".join(f"{k} = {toml_value(x, native_dates)}" for k, x in v.items()) + "}"
    raise TypeError(type(v))


def toml_dumps(conf, native_dates=False, inline_depth=3):
    lines = []

    def emit(prefix, d, depth):
        scalars = {k: v for k, v in d.items() if not isinstance(v, dict)}
        tables = {k: v for k, v in d.items() if isinstance(v, dict)}
        if prefix:
            lines.append(f"[{prefix}]")
        for k, v in scalars.items():
            lines.append(f"{k} = {toml_value(v, native_dates)}")
        for k, v in tables.items():
            if depth >= inline_depth or not v:
                lines.append(f"{k} = {toml_value(v, native_dates)}")
        lines.append("")
        for k, v in tables.items():
            if depth < inline_depth and v:
                emit(f"{prefix}.{k}" if prefix else k, v, depth + 1)

    emit("", conf, 0)
    return "\n".join(lines) + "\n"


# ---------------------------------------------------------------------------
# abstract simulation
# ---------------------------------------------------------------------------


@st.composite
def abstract(draw):
    nsteps = draw(st.integers(2, 10))
    nfiles = draw(st.sampled_from([1, 1, 2, 3]))
    sub = None
    jm, im = draw(st.integers(8, 11)), draw(st.integers(9, 12))
    if draw(st.booleans()):
        sub = [draw(st.integers(1, 2)), im - draw(st.integers(1, 2)), draw(st.integers(1, 2)), jm - draw(st.integers(1, 2))]
    extras = draw(st.lists(st.sampled_from(["X0", "kind", "release_time"]), unique=True, max_size=3))
    ntimes = draw(st.integers(1, 3))
    cont = draw(st.booleans())
    freq = draw(st.integers(1, 3)) if cont else 0
    rel_steps = sorted(set([0] + [draw(st.integers(0, nsteps - 1)) for _ in range(ntimes - 1)]))
    if cont:
        rel_steps = sorted(set((s // freq) * freq for s in rel_steps))
    rows = []
    for s in rel_steps:
        for _ in range(draw(st.integers(1, 2))):
            rows.append(dict(step=s, fx=draw(st.floats(-0.4, 0.4)), fy=draw(st.floats(-0.4, 0.4)), z=draw(st.floats(0, 20)),
                             cell=draw(st.integers(0, 10**6)), mult=draw(st.sampled_from([1, 1, 2])),
                             kind=draw(st.integers(0, 5))))
    return dict(jm=jm, im=im, nsteps=nsteps, nfiles=nfiles, wildcard=draw(st.sampled_from(["*", "?"])),
                gridfile=draw(st.booleans()), sub=sub, temp=draw(st.booleans()), cont=cont, freq=freq,
                rows=rows, extras=sorted(extras), has_mult=draw(st.booleans()),
                ibm=draw(st.booleans()), lifetime=draw(st.sampled_from([0, 2, 4])),
                advection=draw(st.sampled_from(["EF", "RK2", "RK4"])), period=draw(st.integers(1, 3)),
                period_spell=draw(st.sampled_from(["int", "list"])), reference=draw(st.booleans()),
                seed=draw(st.integers(0, 10**6)), dtype=draw(st.sampled_from(["f8", "f4"])),
                v2_variant=draw(st.sampled_from(["omit", "empty"])), native_dates=draw(st.booleans()),
                grid_variant=draw(st.sampled_from(["omit", "module_only", "empty"])),
                # grid and forcing classes from a user's module (a file given by path) instead of ladim.ROMS
                plug_gf=draw(st.sampled_from([False, False, True])),
                # a discrete release whose configuration still carries a release frequency (left over from a
                # continuous set-up); legacy files then say release_type: discrete or nothing at all
                stale_freq=draw(st.sampled_from([0, 0, 1, 2])), v1_type=draw(st.sampled_from(["explicit", "omit"])),
                # legacy files may name the forcing file and the grid file in the gridforce or in the files section
                v1_places=draw(st.sampled_from(["gg", "gg", "gf", "fg", "ff"])),
                # the file format named in the configuration (legacy: output_variables.format; v2: ncargs.data_model)
                ncformat=draw(st.sampled_from(["NETCDF4", "NETCDF4", "NETCDF4_CLASSIC", "NETCDF3_CLASSIC", "NETCDF3_64BIT_OFFSET"])),
                # some release rows switched off through an `active` column of 0 / 1 in the release file
                active_col=draw(st.sampled_from([0, 0, 0b0110, 0b1, 0b10101])))


def build_files(d, a):
    G = roms.make_grid(a["jm"], a["im"], N=3, h="slope", hval=60.0, mask="islands", dx=100.0, seed=a["seed"],
                       levels="random")
    start = scen.T0
    stop = start + scen.S(a["nsteps"] * DT)
    nfr = a["nfiles"] * 2
    span = a["nsteps"] + 4
    fsteps = np.linspace(-2, span, nfr).round().astype(int)
    fsteps = np.array(sorted(set(fsteps.tolist())))
    while len(fsteps) < nfr:
        fsteps = np.append(fsteps, fsteps[-1] + 2)
    ft = [start + scen.S(int(s) * DT) for s in fsteps]
    U, V = scen.vel_arrays(G, len(ft), {"kind": "shear", "amp": 0.3, "u": 0.1, "v": -0.05}, seed=a["seed"])
    extra = None
    if a["temp"]:
        extra = {"temp": np.random.default_rng(a["seed"]).uniform(0, 10, (len(ft), 3, a["jm"], a["im"]))}
    part = [2] * a["nfiles"]
    part[-1] += len(ft) - sum(part)
    # only the first file carries the true grid: later files have another bathymetry and coast, so that
    # a grid taken from any other file than the first changes the run
    G2 = dict(G, h=G["h"] * 0.37 + 1.0, mask=np.ones_like(G["mask"]))
    files = []
    a0 = 0
    for n, cnt in enumerate(part):
        pth = d / f"ocean_{n:03d}.nc"
        ex = {k: v[a0:a0 + cnt] for k, v in (extra or {}).items()}
        # with a separate grid file given, not even the first forcing file carries the true grid: a run that
        # falls back to it (instead of the grid file) goes differently
        Gn = G2 if (n > 0 or a["gridfile"]) else G
        roms.write_roms(pth, Gn, ft[a0:a0 + cnt], U[a0:a0 + cnt], V[a0:a0 + cnt], extra=ex)
        files.append(pth)
        a0 += cnt
    pattern = str(files[0])
    if a["nfiles"] > 1:
        pattern = str(d / ("ocean_" + ("*" if a["wildcard"] == "*" else "???") + ".nc"))
    gridfile = None
    if a["gridfile"]:
        gridfile = str(d / "grid_only.nc")
        roms.write_roms(gridfile, G, [], np.zeros((0, 3, a["jm"], a["im"] - 1)), np.zeros((0, 3, a["jm"] - 1, a["im"])))
    cells = sim.sea_cells(G, a["sub"])
    cols = ["release_time", "X", "Y", "Z"] + (["mult"] if a["has_mult"] else []) + [e for e in a["extras"] if e != "release_time"]
    if a.get("active_col"):
        cols.append("active")   # the state's own flag given per release row as 0 / 1 (switched-off particles stay put)
    lines = []
    for nrow_, r in enumerate(a["rows"]):
        i, j = cells[r["cell"] % len(cells)]
        vals = {"release_time": e2e.iso(start + scen.S(r["step"] * DT)), "X": repr(i + r["fx"]), "Y": repr(j + r["fy"]),
                "Z": repr(r["z"]), "mult": r["mult"], "X0": repr(i + r["fx"]), "kind": r["kind"],
                "active": 0 if (a.get("active_col", 0) >> (nrow_ % 8)) & 1 else 1}
        lines.append([vals[c] for c in cols])
    e2e.write_release(d / "rel.rls", lines, cols, header=False)
    gfmod = "ladim.ROMS"
    if a.get("plug_gf"):
        # a grid whose metric differs observably from the stock grid's, so that a run that silently falls
        # back to ladim.ROMS for the grid gives other trajectories
        (d / "vroms_plug.py").write_text(
            "import ladim.ROMS\n\n\nclass Grid(ladim.ROMS.Grid):\n    def metric(self, X, Y):\n"
            "        dx, dy = super().metric(X, Y)\n        return 2.0 * dx, 2.0 * dy\n\n\n"
            "class Forcing(ladim.ROMS.Forcing):\n    pass\n", encoding="utf-8")
        gfmod = str(d / "vroms_plug.py")
    return dict(start=start, stop=stop, pattern=pattern, files=files, gridfile=gridfile, cols=cols,
                first_file=str(sorted(files)[0]), gfmod=gfmod)


def render(a, F, d, spelling, out):
    """Return the configuration dict for one spelling."""
    start, stop = e2e.iso(F["start"]), e2e.iso(F["stop"])
    ref = e2e.iso(F["start"] - scen.S(86400)) if a["reference"] else None
    period = a["period"] * DT
    per = period if a["period_spell"] == "int" else [a["period"], "m"]
    freq = a["freq"] * DT if a["period_spell"] == "int" else [a["freq"], "m"]
    ivars = ["pid", "X", "Y", "Z"] + (["age"] if a["ibm"] else []) + (["temp"] if a["temp"] else [])
    pvars = list(a["extras"])

    def vattrs(v):
        return {"long_name": f"variable {v}"}

    def ptype(v):
        return {"X0": "float", "kind": "int", "release_time": "time"}[v]

    def pfmt(v):
        return {"X0": a["dtype"], "kind": "i4", "release_time": "f8"}[v]

    ibm_path = str(sim.PLUG / "ibm_script.py")
    if spelling == "v1":
        c = {
            "time_control": {"start_time": start, "stop_time": stop},
            "files": {"particle_release_file": str(d / "rel.rls"), "output_file": str(d / out)},
            "gridforce": {"module": "ladim1.gridforce.ROMS" if F["gfmod"] == "ladim.ROMS" else F["gfmod"],
                          "input_file": F["pattern"]},
            "particle_release": {"variables": F["cols"], "particle_variables": pvars},
            "output_variables": {"outper": per, "instance": ivars, "particle": pvars, "format": a.get("ncformat", "NETCDF4")},
            "numerics": {"dt": DT, "advection": a["advection"], "diffusion": 0.0},
        }
        if ref:
            c["time_control"]["reference_time"] = ref
        places = a.get("v1_places", "gg")
        if places[0] == "f":
            c["files"]["input_file"] = c["gridforce"].pop("input_file")
        if F["gridfile"]:
            c["gridforce" if places[1] == "g" else "files"]["gridfile"] = F["gridfile"]
        if a["sub"]:
            c["gridforce"]["subgrid"] = list(a["sub"])
        if a["temp"]:
            c["gridforce"]["extra_forcing"] = ["temp"]
        for v in pvars:
            c["particle_release"][v] = ptype(v)
        if a.get("active_col"):
            c["particle_release"]["active"] = "int"   # LADiM 1 converter line for the extra column
        if a["cont"]:
            c["particle_release"]["release_type"] = "continuous"
            c["particle_release"]["release_frequency"] = freq
        else:
            if a.get("v1_type") == "explicit":
                c["particle_release"]["release_type"] = "discrete"
            if a.get("stale_freq"):
                c["particle_release"]["release_frequency"] = a["stale_freq"] * DT
        ibmvars = (["age"] if a["ibm"] else []) + (["temp"] if a["temp"] else [])
        if a["ibm"] or ibmvars:
            c["ibm"] = {"variables": ibmvars}
            if a["ibm"]:
                c["ibm"]["ibm_module"] = ibm_path
                c["ibm"]["lifetime"] = a["lifetime"]
        for v in ivars:
            c["output_variables"][v] = dict(ncformat="i4" if v == "pid" else a["dtype"], **vattrs(v))
        for v in pvars:
            c["output_variables"][v] = dict(ncformat=pfmt(v), **vattrs(v))
            if v == "release_time":
                c["output_variables"][v]["units"] = "seconds since reference_time"
        return c
    # version 2
    c = {"version": 2,
         "time": {"start": start, "stop": stop, "dt": DT},
         "forcing": {"module": F["gfmod"], "filename": F["pattern"]},
         "tracker": {"advection": a["advection"]},
         "release": {"release_file": str(d / "rel.rls"), "names": F["cols"]},
         "output": {"filename": str(d / out), "output_period": per, "ncargs": {"data_model": a.get("ncformat", "NETCDF4")},
                    "instance_variables": {}, "particle_variables": {}}}
    if ref:
        c["time"]["reference"] = ref
    grid = {}
    if F["gridfile"]:
        grid["filename"] = F["gridfile"]
    elif a.get("explicit_first_file"):
        grid["filename"] = F["first_file"]
    if a["sub"]:
        grid["subgrid"] = list(a["sub"])
    # omit: no grid section unless something has to be said in it (then without a module key);
    # empty: a grid section without a module key, possibly with no key at all; module_only: module spelled out
    if grid or a["grid_variant"] != "omit":
        if a["grid_variant"] == "module_only":
            grid = dict({"module": F["gfmod"]}, **grid)
        c["grid"] = grid
    if a["temp"]:
        c["forcing"]["extra_forcing"] = ["temp"]
    inst = {}
    if a["ibm"]:
        inst["age"] = "float"
    if a["temp"]:
        inst["temp"] = "float"
    state = {}
    if inst:
        state["instance_variables"] = inst
        state["default_values"] = {k: 0 for k in inst}
    if pvars:
        state["particle_variables"] = {v: ptype(v) for v in pvars}
    if state or a["v2_variant"] == "empty":
        c["state"] = state
    if a["cont"]:
        c["release"]["continuous"] = True
        c["release"]["release_frequency"] = freq
    elif a.get("stale_freq"):
        c["release"]["continuous"] = False
        c["release"]["release_frequency"] = a["stale_freq"] * DT
    if a["ibm"]:
        c["ibm"] = {"module": ibm_path, "lifetime": a["lifetime"]}
    elif a["v2_variant"] == "empty":
        c["ibm"] = {}
    if a["v2_variant"] == "empty":
        c["warm_start"] = {}
    for v in ivars:
        c["output"]["instance_variables"][v] = {"encoding": {"datatype": "i4" if v == "pid" else a["dtype"]},
                                                "attributes": vattrs(v)}
    for v in pvars:
        at = vattrs(v)
        if v == "release_time":
            at["units"] = "seconds since reference_time"
        c["output"]["particle_variables"][v] = {"encoding": {"datatype": pfmt(v)}, "attributes": at}
    return c


def dump_nc(path):
    out = {}
    with Dataset(path) as nc:
        nc.set_auto_mask(False)
        out["dims"] = {k: v.size for k, v in nc.dimensions.items()}
        out["vars"] = {}
        for k, v in nc.variables.items():
            out["vars"][k] = dict(dims=v.dimensions, dtype=str(v.dtype),
                                  attrs={a: v.getncattr(a) for a in v.ncattrs()}, data=np.asarray(v[:]))
        out["gattrs"] = {a: nc.getncattr(a) for a in nc.ncattrs()}
    return out


def diff_nc(a, b):
    if a["dims"] != b["dims"]:
        return f"dimensions {a['dims']} vs {b['dims']}"
    if set(a["vars"]) != set(b["vars"]):
        return f"variables {sorted(a['vars'])} vs {sorted(b['vars'])}"
    for k in a["vars"]:
        va, vb = a["vars"][k], b["vars"][k]
        if va["dims"] != vb["dims"] or va["dtype"] != vb["dtype"]:
            return f"{k}: {va['dims']} {va['dtype']} vs {vb['dims']} {vb['dtype']}"
        aa = {x: (y.tolist() if hasattr(y, "tolist") else y) for x, y in va["attrs"].items()}
        bb = {x: (y.tolist() if hasattr(y, "tolist") else y) for x, y in vb["attrs"].items()}
        if str(aa) != str(bb):
            return f"{k}: attributes {aa} vs {bb}"
        if va["data"].shape != vb["data"].shape or not np.array_equal(va["data"], vb["data"], equal_nan=va["data"].dtype.kind == "f"):
            return f"{k}: values {va['data']} vs {vb['data']}"
    ga = {k: v for k, v in a["gattrs"].items()}
    gb = {k: v for k, v in b["gattrs"].items()}
    if str(ga) != str(gb):
        return f"global attributes {ga} vs {gb}"
    return None


def oracle(a) -> core.CaseResult:
    res = core.CaseResult()
    res.cls("wildcard" if a["nfiles"] > 1 else "single_file")
    res.cls("gridfile" if a["gridfile"] else "grid_from_forcing")
    if a.get("active_col"):
        res.cls("release_rows_switched_off")
    if a.get("plug_gf"):
        res.cls("user_grid_forcing_module")
    if not a["cont"] and a.get("stale_freq"):
        res.cls("discrete_with_leftover_frequency")
    if a["gridfile"] and a.get("v1_places") in ("gf", "fg"):
        res.cls("legacy_file_names_in_different_sections")
    with e2e.workdir() as d:
        F = build_files(d, a)
        outs = {}
        runs = [("yaml2", "yaml"), ("toml2", "toml"), ("v1", "yaml")]
        alt = copy.deepcopy(a)
        alt["v2_variant"] = "empty" if a["v2_variant"] == "omit" else "omit"
        alt["grid_variant"] = {"omit": "module_only", "module_only": "empty", "empty": "omit"}[a["grid_variant"]]
        alt["explicit_first_file"] = True  # the default grid must be the first forcing file
        for name, ext in runs + [("yaml2_alt", "yaml")]:
            conf = render(alt if name == "yaml2_alt" else a, F, d, "v1" if name == "v1" else "v2", f"{name}.nc")
            path = d / f"{name}.{ext}"
            if ext == "toml":
                path.write_text(toml_dumps(conf, native_dates=a["native_dates"]), encoding="utf-8")
            else:
                with open(path, "w", encoding="utf-8") as f:
                    yaml.safe_dump(conf, f, sort_keys=False)
            r = e2e.run_main(path)
            if not res.check(r["status"] == "ok", f"{name}_fails",
                             f"{name}: {r['exc']}\n{(r['tb'] or '')[-600:]}\n--- config ---\n{path.read_text()[:1500]}"):
                continue
            try:
                outs[name] = dump_nc(d / f"{name}.nc")
            except Exception as e:  # noqa: BLE001
                res.fail(f"{name}_unreadable", repr(e))
        base = outs.get("yaml2")
        if base is not None:
            for name in ("toml2", "v1", "yaml2_alt"):
                if name in outs:
                    msg = diff_nc(base, outs[name])
                    res.check(msg is None, f"{name}_differs", f"yaml v2 vs {name}: {msg}")
            # the grid really is the first forcing file when no grid file is given
            nrec = len(base["vars"]["time"]["data"])
            res.nontrivial = nrec >= 2 and (a["cont"] or a["extras"] or a["sub"] or a["nfiles"] > 1)
    return res


def shard(n, seed, known):
    stt = core.Stats()
    core.drive("spellings", abstract(), oracle, n, seed, stt, known)
    return stt


def run(ctx):
    jobs = [(k, core.subseed(ctx.seed, "s", i), ctx.known_sigs)
            for i, k in enumerate(core.split(ctx.n(800, 6000), 16))]
    stats = core.Stats()
    for s in core.pmap(shard, jobs):
        stats.merge(s)
    return stats, dict(
        rule=("generated abstract simulations inside the v1 vocabulary (forcing file or wildcard, optional grid file, "
              "subgrid, extra forcing, discrete/continuous release, extra release columns as particle variables incl. "
              "time-typed, IBM module with parameters and variables, scheme, output period spellings, reference time) "
              "rendered as YAML v2, TOML v2 (native or string datetimes), YAML v1 and a second YAML v2 with the optional "
              "sections omitted vs present-but-empty and the grid section omitted / module only / explicit; the four "
              "output files must agree in dimensions, variables, attributes and every value; "
              "non-trivial = >= 2 records and one of continuous / extra column / subgrid / wildcard"),
        assumptions=["forcing.module is always spelled (configure_v2 reads it whenever grid.module is absent)",
                     "empty optional sections are written as {} (an empty YAML key is None, not an empty section)"],
    )


def replay(part, case):
    return oracle(case)
