"""C12 - vertical grid: s-levels ordered inside the water column, depth lookup consistent."""

from __future__ import annotations

import numpy as np
from hypothesis import strategies as st

from vlib import core

PID = "C12"
LEVEL = "exploration"


def theta_b_strategy(vs):
    if vs == 1:
        return st.one_of(st.just(0.0), st.just(1.0), st.floats(0.0, 1.0))
    return st.one_of(st.just(4.0), st.floats(1e-3, 4.0))


@st.composite
def vert_cases(draw):
    vs = draw(st.sampled_from([1, 2, 4]))
    N = draw(st.one_of(st.integers(1, 60), st.sampled_from([1, 2, 3, 60])))
    theta_s = draw(st.one_of(st.floats(1e-3, 10.0), st.sampled_from([1e-3, 1.0, 5.0, 7.0, 10.0])))
    theta_b = draw(theta_b_strategy(vs))
    vt = draw(st.sampled_from([1, 2]))
    hkind = draw(st.sampled_from(["scalar", "1d", "2d"]))
    hseed = draw(st.integers(0, 10**6))
    hmin = draw(st.floats(1.0, 5000.0))
    hmax = draw(st.floats(hmin, 5000.0))
    if vt == 1:
        hc = draw(st.one_of(st.just(0.0), st.just(hmin), st.floats(0.0, hmin)))
    else:
        hc = draw(st.one_of(st.floats(1e-3, 1000.0), st.sampled_from([1.0, 20.0, 250.0])))
    zfrac = draw(st.lists(st.floats(-0.5, 2.0), min_size=1, max_size=8))
    onlevel = draw(st.lists(st.integers(0, 59), min_size=0, max_size=3))
    return dict(vs=vs, N=N, theta_s=theta_s, theta_b=theta_b, vt=vt, hkind=hkind, hseed=hseed,
                hmin=hmin, hmax=hmax, hc=hc, zfrac=zfrac, onlevel=onlevel)


def make_h(case):
    rng = np.random.default_rng(case["hseed"])
    if case["hkind"] == "scalar":
        return np.array([[case["hmin"]]])
    if case["hkind"] == "1d":
        h = rng.uniform(case["hmin"], case["hmax"], (1, 5))
    else:
        h = rng.uniform(case["hmin"], case["hmax"], (4, 5))
    h.flat[0] = case["hmin"]
    h.flat[-1] = case["hmax"]
    return h


def oracle(case) -> core.CaseResult:
    from ladim.ROMS import s_stretch, sdepth, z2s

    res = core.CaseResult()
    N = case["N"]
    try:
        Cr = s_stretch(N, case["theta_s"], case["theta_b"], stagger="rho", Vstretching=case["vs"])
        Cw = s_stretch(N, case["theta_s"], case["theta_b"], stagger="w", Vstretching=case["vs"])
    except BaseException as e:  # noqa: BLE001
        res.fail("stretch_raises", repr(e))
        return res
    res.cls(f"Vstretching{case['vs']}")
    res.cls(f"Vtransform{case['vt']}")
    res.cls("N1" if N == 1 else "N>=2")
    ok = len(Cr) == N and len(Cw) == N + 1 and np.all(np.isfinite(Cr)) and np.all(np.isfinite(Cw))
    if not res.check(ok, "stretch_shape", f"lengths {len(Cr)}, {len(Cw)} for N={N}"):
        return res
    res.check(abs(Cw[0] + 1) <= 1e-12 and abs(Cw[-1]) <= 1e-12, "cs_w_ends", f"Cs_w ends {Cw[0]!r}, {Cw[-1]!r}")
    res.check(np.all(np.diff(Cw) > 0), "cs_w_monotone", lambda: f"Cs_w not increasing: {Cw}")
    res.check(np.all(np.diff(Cr) > 0), "cs_r_monotone", lambda: f"Cs_r not increasing: {Cr}")
    res.check(np.all(Cw[:-1] < Cr) and np.all(Cr < Cw[1:]), "cs_interleave",
              lambda: f"Cs_r not between Cs_w: {Cr} {Cw}")
    res.check(np.all(Cr > -1) and np.all(Cr < 0), "cs_r_range", lambda: f"Cs_r outside (-1,0): {Cr}")

    H = make_h(case)
    hc = case["hc"]
    try:
        zr = sdepth(H, hc, Cr, stagger="rho", Vtransform=case["vt"])
        zw = sdepth(H, hc, Cw, stagger="w", Vtransform=case["vt"])
    except BaseException as e:  # noqa: BLE001
        res.fail("sdepth_raises", repr(e))
        return res
    if not res.check(zr.shape == (N, *H.shape) and zw.shape == (N + 1, *H.shape), "sdepth_shape",
                     f"{zr.shape} {zw.shape}"):
        return res
    tol = 1e-9 * H
    res.check(np.all(np.abs(zw[0] + H) <= tol), "zw_bottom", lambda: f"z_w[0] != -h: {zw[0]} vs {-H}")
    res.check(np.all(np.abs(zw[-1]) <= tol), "zw_surface", lambda: f"z_w[-1] != 0: {zw[-1]}")
    res.check(np.all(np.diff(zw, axis=0) > 0), "zw_monotone", "z_w not strictly increasing")
    if N > 1:
        res.check(np.all(np.diff(zr, axis=0) > 0), "zr_monotone", "z_r not strictly increasing")
    res.check(np.all(zr > -H - tol) and np.all(zr < tol), "zr_range", "z_r outside [-h, 0]")
    res.check(np.all(zw[:-1] < zr) and np.all(zr < zw[1:]), "z_interleave", "z_r not between z_w levels")

    # ---- level lookup
    jm, im = H.shape
    rng = np.random.default_rng(case["hseed"] + 1)
    Zs, Xs, Ys = [], [], []
    for f in case["zfrac"]:
        j, i = int(rng.integers(0, jm)), int(rng.integers(0, im))
        Xs.append(i + rng.uniform(-0.49, 0.49))
        Ys.append(j + rng.uniform(-0.49, 0.49))
        Zs.append(f * H[j, i])
    for lv in case["onlevel"]:
        j, i = int(rng.integers(0, jm)), int(rng.integers(0, im))
        Xs.append(float(i))
        Ys.append(float(j))
        Zs.append(-zr[lv % N, j, i])
    X, Y, Z = np.array(Xs), np.array(Ys), np.array(Zs)
    X = np.clip(X, 0, im - 1)
    Y = np.clip(Y, 0, jm - 1)
    try:
        K, A = z2s(zr, X, Y, Z)
    except BaseException as e:  # noqa: BLE001
        res.fail("z2s_raises", repr(e))
        return res
    inside = False
    for n in range(len(Z)):
        j, i = int(round(Y[n])), int(round(X[n]))
        col = zr[:, j, i]
        k, a = int(K[n]), float(A[n])
        tgt = min(max(-Z[n], col[0]), col[-1])
        if col[0] < -Z[n] < col[-1]:
            inside = True
        if not res.check(0.0 <= a <= 1.0, "weight_range", f"A={a} for Z={Z[n]} column {col}"):
            continue
        if N >= 2:
            okk = 1 <= k <= N - 1
        else:
            okk = k in (0,)  # pair (-1, 0) wraps to the single level
        if not res.check(okk, "index_range" if N >= 2 else "index_range_N1",
                         f"K={k} outside 1..N-1 (N={N}), Z={Z[n]}, column {col}"):
            continue
        val = a * col[k - 1] + (1 - a) * col[k]
        res.check(abs(val - tgt) <= 1e-9 * H[j, i], "lookup_identity",
                  f"A*z[K-1]+(1-A)*z[K] = {val}, clamped depth {tgt} (K={k}, A={a}, Z={Z[n]})")
    res.nontrivial = N >= 2 and inside
    return res


@st.composite
def gridfile_cases(draw):
    return dict(N=draw(st.integers(1, 30)), vt=draw(st.sampled_from([1, 2])),
                vs=draw(st.sampled_from([1, 2, 4])), theta_s=draw(st.floats(0.5, 8.0)),
                theta_b=draw(st.floats(0.05, 1.0)), hseed=draw(st.integers(0, 10**6)),
                hmin=draw(st.floats(2.0, 200.0)), via=draw(st.sampled_from(["file", "vinfo"])),
                hcf=draw(st.floats(0.0, 1.0)))


def gridfile_oracle(case) -> core.CaseResult:
    """Same predicates on Grid.z_r / z_w of a Grid built from a file or from Vinfo."""
    from ladim.ROMS import Grid, s_stretch

    from vlib import e2e, roms

    e2e.quiet()
    res = core.CaseResult()
    N = case["N"]
    rng = np.random.default_rng(case["hseed"])
    h = rng.uniform(case["hmin"], case["hmin"] * 20, (6, 7))
    hc = case["hcf"] * float(h.min()) if case["vt"] == 1 else 5 + 200 * case["hcf"]
    G = roms.make_grid(6, 7, N=N, h=h, Vtransform=case["vt"], hc=hc)
    G["Cs_r"] = s_stretch(N, case["theta_s"], case["theta_b"], "rho", case["vs"])
    G["Cs_w"] = s_stretch(N, case["theta_s"], case["theta_b"], "w", case["vs"])
    res.cls(case["via"])
    with e2e.workdir() as d:
        Gfile = G
        if case["via"] == "vinfo":
            # the file records another transform and critical depth than the explicit Vinfo asks for
            vt_f = 3 - case["vt"]
            Gfile = dict(G, Vtransform=vt_f, hc=0.5 * float(h.min()) if vt_f == 1 else 7.0)
        roms.write_roms(d / "g.nc", Gfile, [], np.zeros((0, N, 6, 6)), np.zeros((0, N, 5, 7)))
        if case["via"] == "file":
            g = Grid(filename=str(d / "g.nc"))
        else:
            g = Grid(filename=str(d / "g.nc"),
                     Vinfo=dict(N=N, hc=hc, theta_s=case["theta_s"], theta_b=case["theta_b"],
                                Vstretching=case["vs"], Vtransform=case["vt"]))
    H = h[1:-1, 1:-1]
    zr, zw = np.asarray(g.z_r), np.asarray(g.z_w)
    tol = 1e-9 * H
    if not res.check(zr.shape == (N, *H.shape) and zw.shape == (N + 1, *H.shape), "grid_shape",
                     f"{zr.shape} {zw.shape}"):
        return res
    res.check(np.all(np.abs(zw[0] + H) <= tol) and np.all(np.abs(zw[-1]) <= tol), "grid_zw_ends", "z_w ends")
    res.check(np.all(np.diff(zw, axis=0) > 0) and (N == 1 or np.all(np.diff(zr, axis=0) > 0)),
              "grid_monotone", "levels not increasing")
    res.check(np.all(zw[:-1] < zr) and np.all(zr < zw[1:]), "grid_interleave", "z_r not between z_w")
    ref = roms.ref_zr(H, hc, G["Cs_r"], case["vt"], "rho")
    res.check(np.allclose(zr, ref, rtol=1e-12, atol=1e-9), "grid_zr_formula", "Grid.z_r differs from ROMS formula")
    res.nontrivial = N >= 2
    return res



@st.composite
def lookup_cases(draw):
    return dict(N=draw(st.sampled_from([1, 2, 3, 5, 9])), vt=draw(st.sampled_from([1, 2])), seed=draw(st.integers(0, 10**6)),
                hmin=draw(st.floats(2.0, 200.0)), rounds=draw(st.integers(1, 4)), sub=draw(st.booleans()),
                regrow=draw(st.booleans()))


def lookup_oracle(case) -> core.CaseResult:
    """The lookup the forcing keeps for its particles (Forcing.K, Forcing.A) over a history of forcing updates in
    which the particles change depth between updates (sinking below the lowest level, rising above the top one)
    while their number stays the same or changes."""
    from ladim.model import init_module

    from vlib import e2e, roms, scen

    e2e.quiet()
    res = core.CaseResult()
    N, jm, im = case["N"], 8, 9
    rng = np.random.default_rng(case["seed"])
    h = rng.uniform(case["hmin"], case["hmin"] * 10, (jm, im))
    G = roms.make_grid(jm, im, N=N, h=h, Vtransform=case["vt"], hc=0.5 * float(h.min()), levels="random",
                       seed=case["seed"])
    zr = roms.grid_zr(G)
    sub = [2, im - 1, 1, jm - 2] if case["sub"] else None
    i0, i1, j0, j1 = sub or [1, im - 1, 1, jm - 1]
    n = 10
    DTL = 600
    with e2e.workdir() as d:
        times = [scen.T0, scen.T0 + scen.S(20 * DTL)]
        roms.write_roms(d / "f.nc", G, times, np.zeros((2, N, jm, im - 1)), np.zeros((2, N, jm - 1, im)))
        modules = {}
        try:
            modules["state"] = init_module("state", {}, modules)
            modules["time"] = init_module("time", {"start": e2e.iso(times[0]), "stop": e2e.iso(times[1]), "dt": DTL}, modules)
            gconf = {"filename": str(d / "f.nc")}
            if sub:
                gconf["subgrid"] = sub
            modules["grid"] = init_module("grid", gconf, modules)
            modules["forcing"] = init_module("forcing", {"filename": str(d / "f.nc")}, modules)
            state, timer, force = modules["state"], modules["time"], modules["forcing"]
            X = rng.uniform(i0 + 0.6, i1 - 1.6, n)
            Y = rng.uniform(j0 + 0.6, j1 - 1.6, n)
            J, I = np.floor(Y + 0.5).astype(int), np.floor(X + 0.5).astype(int)
            hp = h[J, I]
            state.append(X=X, Y=Y, Z=0.5 * hp)
            inside = False
            for r_ in range(case["rounds"] + 1):
                if r_:
                    kind = rng.integers(0, 4, n)
                    Z = np.where(kind == 0, rng.uniform(0, 1, n) * hp, np.where(kind == 1, hp * rng.uniform(0.97, 2.0, n),
                                 np.where(kind == 2, -0.2 * hp, rng.uniform(0, 0.03, n) * hp)))
                    state["Z"] = Z
                    if case["regrow"] and r_ == 2:
                        state.append(X=X[:2], Y=Y[:2], Z=hp[:2] * 1.5)   # particle count changes once
                timer.update()
                force.update()
                Zs, Xs, Ys = np.array(state.Z), np.array(state.X), np.array(state.Y)
                K, A = np.array(force.K), np.array(force.A)
                for p_ in range(len(Zs)):
                    col = zr[:, int(np.floor(Ys[p_] + 0.5)), int(np.floor(Xs[p_] + 0.5))]
                    tgt = min(max(-Zs[p_], col[0]), col[-1])
                    k, a = int(K[p_]), float(A[p_])
                    okk = (1 <= k <= N - 1) if N >= 2 else k == 0
                    if not res.check(okk and 0 <= a <= 1, "forcing_lookup_range",
                                     f"update {r_}: particle {p_} at depth {Zs[p_]}: K={k}, A={a} (N={N})"):
                        return res
                    val = a * col[k - 1] + (1 - a) * col[k]
                    if not res.check(abs(val - tgt) <= 1e-9 * max(1.0, abs(col[0])), "forcing_lookup_identity",
                                     f"update {r_}: particle {p_} at depth {Zs[p_]}: A*z[K-1]+(1-A)*z[K] = {val}, clamped "
                                     f"depth {tgt} (K={k}, A={a}, column {col})"):
                        return res
                    inside = inside or (col[0] < -Zs[p_] < col[-1])
            force.close()
        except BaseException as e:  # noqa: BLE001
            import traceback

            res.fail("forcing_lookup_raises", f"{e!r}\n{traceback.format_exc()[-500:]}")
            return res
    res.nontrivial = N >= 2 and inside and case["rounds"] >= 2
    res.cls("depth_history")
    return res


def shard(part, n, seed, known):
    stt = core.Stats()
    if part == "lookup":
        core.drive("lookup", lookup_cases(), lookup_oracle, n, seed, stt, known)
    elif part == "vert":
        core.drive("vert", vert_cases(), oracle, n, seed, stt, known)
    else:
        core.drive("gridfile", gridfile_cases(), gridfile_oracle, n, seed, stt, known)
    return stt


def run(ctx):
    jobs = [("vert", k, core.subseed(ctx.seed, "v", i), ctx.known_sigs)
            for i, k in enumerate(core.split(ctx.n(15000, 300000), 10))]
    jobs += [("gridfile", k, core.subseed(ctx.seed, "g", i), ctx.known_sigs)
             for i, k in enumerate(core.split(ctx.n(800, 8000), 3))]
    jobs += [("lookup", k, core.subseed(ctx.seed, "l", i), ctx.known_sigs)
             for i, k in enumerate(core.split(ctx.n(900, 12000), 3))]
    stats = core.Stats()
    for s in core.pmap(shard, jobs):
        stats.merge(s)
    return stats, dict(
        rule=("generated (N, Vstretching, theta_s, theta_b, Vtransform, hc, bathymetry, depths incl. exactly on levels "
              "and above/below the range); non-trivial = N >= 2 and at least one depth strictly inside the level range; "
              "gridfile: the same predicates and the ROMS depth formula on Grid.z_r / z_w from a file or from an explicit "
              "Vinfo that differs from the file; lookup: the index pair and weight the forcing keeps for its particles "
              "over a history of forcing updates between which the particles change depth"),
        assumptions=["theta_s, theta_b >= 1e-3 (closed forms lose significance near 0, see DESIGN C12-S)",
                     "tolerances 1e-12 on stretching end points, 1e-9*h on depths"],
    )


def replay(part, case):
    return {"vert": oracle, "gridfile": gridfile_oracle, "lookup": lookup_oracle}[part](case)
