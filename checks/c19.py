"""C19 - step protocol: release, forcing, output, move, IBM; once per step in that order."""

from __future__ import annotations

import itertools
import shutil
import sys
from pathlib import Path

import numpy as np
from hypothesis import strategies as st

from vlib import core, e2e, sim

PID = "C19"
LEVEL = "exploration"
SLOTS = ["grid", "forcing", "release", "tracker", "ibm", "output"]
ORDER = ["release", "forcing", "output", "tracker", "ibm"]
SPELL = ["abs", "abs_noext", "rel", "bare_cwd", "name", "stock"]
_counter = itertools.count()


@st.composite
def cases(draw, max_steps=12):
    scn = draw(sim.scenario(max_steps=max_steps, reverse=False, layouts=("sparse",), extra_forcing=True,
                            numrec=(0, 0, 2), pvars=[], lonlat=(False,), ref_kinds=("none",), min_gap=1))
    scn["time"]["nsteps"] = draw(st.integers(1, max_steps))
    need = scn["time"]["pre"] + scn["time"]["nsteps"] + 1
    while sum(scn["forcing"]["gaps"]) < need:
        scn["forcing"]["gaps"].append(draw(st.integers(1, 5)))
    if draw(st.sampled_from([False, True])):
        # the forcing ends exactly at the stop time: a warm-started run performs its last step on the very last frame
        g, end = scn["forcing"]["gaps"], scn["time"]["pre"] + scn["time"]["nsteps"]
        while sum(g) > end and len(g) > 1 and sum(g[:-1]) >= end:
            g.pop()
        if sum(g) > end and sum(g[:-1]) < end:
            g[-1] = end - sum(g[:-1])
        if sum(g) == end and end > 0:
            scn["forcing_ends_at_stop"] = True
    scn["forcing"]["partition"] = [len(scn["forcing"]["gaps"]) + 1]
    for r in scn["release"]["rows"]:
        r["step"] = min(r["step"], scn["time"]["nsteps"] - 1)
    scn["release"]["rows"].sort(key=lambda r: (r["step"], r["tag"]))
    scn["output"]["period"] = draw(st.integers(1, 5))
    spell = {s: draw(st.sampled_from(SPELL)) for s in SLOTS}
    spell["ibm"] = draw(st.sampled_from(SPELL[:-1]))
    spell["output"] = draw(st.sampled_from(SPELL[:-1] + ["abs"]))
    scn["spell"] = spell
    scn["warm"] = draw(st.sampled_from([False, False, True]))
    # plug-in files given by path: unique file names, or the same file name in a directory per slot
    scn["same_stem"] = draw(st.booleans())
    # the first release may come some steps into the run: the model steps with an empty state until then
    late = draw(st.sampled_from([0, 0, 1, 2, 3]))
    if late and scn["time"]["nsteps"] > late + 1 and not scn["warm"]:
        for r in scn["release"]["rows"]:
            r["step"] = min(r["step"] + late, scn["time"]["nsteps"] - 1)
        if scn["release"]["continuous"]:
            f = scn["release"]["freq"]
            for r in scn["release"]["rows"]:
                r["step"] = late + ((r["step"] - late) // f) * f
        scn["release"]["rows"].sort(key=lambda r: (r["step"], r["tag"]))
        scn["late_first_release"] = late
    return scn


def install_plugins(d: Path, spell, uid, same_stem=False):
    """Copy the recording module under unique names; return slot -> module string, cleanup list,
    and slot -> the file that has to run."""
    src = (sim.PLUG / "rec_all.py").read_text()
    decoy = src.replace('KIND = "real"', 'KIND = "decoy"')
    mods = {}
    paths = []
    names = []
    files = {}
    (d / "plug").mkdir(exist_ok=True)
    (d / "onpath").mkdir(exist_ok=True)
    (d / "decoy").mkdir(exist_ok=True)
    for slot, how in spell.items():
        name = f"vplug_{slot}_{uid}"
        if how == "stock":
            continue
        names.append(name)
        sub = "plug"
        if same_stem and how in ("abs", "abs_noext", "rel"):
            # every slot has its own file, all called vplug.py, each in its own directory
            sub, name = f"plug_{slot}", "vplug"
            (d / sub).mkdir(exist_ok=True)
        if how in ("abs", "abs_noext"):
            (d / sub / f"{name}.py").write_text(src)
            mods[slot] = str(d / sub / name) + (".py" if how == "abs" else "")
            files[slot] = d / sub / f"{name}.py"
        elif how == "rel":
            (d / sub / f"{name}.py").write_text(src)
            mods[slot] = f"{sub}/{name}.py"
            files[slot] = d / sub / f"{name}.py"
        elif how == "bare_cwd":
            (d / f"{name}.py").write_text(src)
            (d / "decoy" / f"{name}.py").write_text(decoy)
            mods[slot] = name
        elif how == "name":
            (d / "onpath" / f"{name}.py").write_text(src)
            mods[slot] = name
    for sub in ("onpath", "decoy"):
        p = str(d / sub)
        sys.path.append(p)  # after the regular entries; cwd is not on sys.path
        paths.append(p)
    return mods, paths, names, files


def oracle(scn) -> core.CaseResult:
    res = core.CaseResult()
    uid = f"{next(_counter)}_{core.case_hash(scn)[:6]}"
    spell = scn["spell"]
    nsteps = scn["time"]["nsteps"]
    period = scn["output"]["period"]
    for s in SLOTS:
        res.cls(f"{s}:{spell[s]}")
    res.cls("warm" if scn["warm"] else "cold")
    if scn.get("forcing_ends_at_stop"):
        res.cls("forcing_ends_at_stop" + ("_warm" if scn["warm"] else ""))
    paths, names = [], []
    with e2e.workdir() as d:
        try:
            warm_file = None
            steps_done = 0
            if scn["warm"]:
                # produce a restart file with the stock modules first
                numrec = 1
                s0 = dict(scn, output=dict(scn["output"], numrec=numrec))
                (d / "base").mkdir()
                r0, m0 = sim.run(d / "base", s0, record_output=False)
                if r0["status"] != "ok":
                    res.fail("base_run_fails", f"{r0['exc']}")
                    return res
                warm_file = d / "base" / "out_000.nc"
                steps_done = 0
            mods, paths, names, files = install_plugins(d, spell, uid, scn.get("same_stem", False))
            path, meta = sim.build(d, scn, record_output=False, record_ibm=False, ibm_offset=steps_done)
            conf = meta["conf"]
            conf["ibm"]["module"] = mods["ibm"]
            for slot in ("grid", "forcing", "release", "tracker", "output"):
                if slot in mods:
                    conf[slot]["module"] = mods[slot]
            if warm_file is not None:
                del conf["time"]["start"]
                conf["warm_start"] = {"filename": str(warm_file), "variables": ["tag", "age", "temp"]}
                conf["output"]["filename"] = str(d / "out_001.nc")
                conf["output"]["numrec"] = 0
            e2e.write_yaml(conf, path)
            r = e2e.run_main(path, cwd=d)
        finally:
            for p in paths:
                if p in sys.path:
                    sys.path.remove(p)
            for nme in names:
                sys.modules.pop(nme, None)
        if not res.check(r["status"] == "ok", "run_fails", f"{r['exc']}\n{(r['tb'] or '')[-700:]}\nspell {spell}"):
            return res
        calls = [e for e in r["log"] if e[0] == "call"]
        # the file that ran in a slot is the file given for that slot (MARK is the module's __file__)
        for c in calls:
            want = files.get(c[1])
            if want is not None and (d / c[4]).resolve() != want.resolve():
                res.fail("wrong_file_ran", f"slot {c[1]}: configured {mods[c[1]]} but {c[2]} ran from {c[4]}")
                break
        if scn.get("same_stem") and len(files) >= 2:
            res.cls("same_stem_two_or_more_files")
        outname = "out_001.nc" if scn["warm"] else ("out.nc" if not scn["output"]["numrec"] else None)
        file_recs = []   # (time, pids) of every record on file
        for nme_ in ([outname] if outname else e2e.list_outputs(d)):
            f_ = e2e.read_sparse(d / nme_)
            file_recs += [(t_, [int(p_) for p_ in rc_["pid"]]) for t_, rc_ in zip(f_["times"], f_["records"])]
        nrec_file = len(file_recs)
    # forcing-derived values in a record are valid at the record's time: the scalar copied to the state is the
    # value of the latest frame at or before that time in the particle's own cell (at one of the levels)
    if scn["forcing"]["temp"] and meta.get("extra"):
        F = meta["extra"]["temp"]
        ftimes = [np.datetime64(t, "s") for t in meta["ftimes"]]
        for c in calls:
            if not (c[1] == "output" and c[2] == "write" and len(c) > 6 and "temp" in c[6]):
                continue
            t = np.datetime64(meta["start"], "s") + np.timedelta64(int(c[3]) * sim.DT, "s")
            fr = max(k for k, ft in enumerate(ftimes) if ft <= t)
            snap = c[6]
            for p_, (x, y, tv, al) in enumerate(zip(snap["X"], snap["Y"], snap["temp"], snap["alive"])):
                if not al:
                    continue
                from vlib import roms as _roms

                cands = [F[fr, k, j, i] for i in _roms.cell_candidates(float(x)) for j in _roms.cell_candidates(float(y))
                         for k in range(F.shape[1])]
                if not res.check(any(abs(tv - cv) <= 1e-6 * max(1.0, abs(cv)) for cv in cands), "record_forcing_not_current",
                                 f"record of step {c[3]} ({t}): temp of pid {int(snap['pid'][p_])} at ({x}, {y}) is {tv}; "
                                 f"the frame in force ({ftimes[fr]}) has {sorted(set(round(float(v), 4) for v in cands))} there"):
                    break
        if scn.get("late_first_release"):
            res.cls("first_release_after_the_start")
    # inside every call the model clock a user module can read is the time of that step
    for c in calls:
        if len(c) > 6 and isinstance(c[6], dict) and "_time" in c[6] and c[3] is not None:
            want = np.datetime64(meta["start"], "s") + np.timedelta64(int(c[3]) * sim.DT, "s")
            if not res.check(np.datetime64(c[6]["_time"], "s") == want, "clock_inside_call",
                             f"{c[1]}.{c[2]} at step {c[3]}: the model clock reads {c[6]['_time']}, expected {want}"):
                break
    decoys = [c for c in calls if c[5] != "real"]
    res.check(not decoys, "decoy_ran", f"a same-named module from sys.path ran instead of the file given by path: {decoys[:2]}")
    recorded = [s for s in SLOTS if spell[s] != "stock"]
    upd = [(c[1], c[2], c[3]) for c in calls if c[2] in ("update",) and c[1] in ORDER]
    # expected sequence of update calls for the recorded slots
    exp = []
    if scn["warm"]:
        for s in ("release", "forcing", "tracker", "ibm"):
            if s in recorded:
                exp.append((s, "update", 0))
        steps = range(1, nsteps + 1)
    else:
        steps = range(0, nsteps)
    for n in steps:
        for s in ORDER:
            if s in recorded:
                exp.append((s, "update", n))
    if not res.check(upd == exp, "call_order",
                     f"update calls differ from the protocol.\n got: {upd[:14]}...\n exp: {exp[:14]}... (recorded slots {recorded})"):
        return res
    writes = [c for c in calls if c[1] == "output" and c[2] == "write"]
    exp_w = [n for n in steps if n % period == 0]
    res.check([w[3] for w in writes] == exp_w, "write_steps", f"records written at steps {[w[3] for w in writes]}, expected {exp_w}")
    res.check(nrec_file == len(writes), "records_on_file", f"{nrec_file} records on file, {len(writes)} writes")
    # forcing sees the particles released in the same step; the record shows the same state
    byslot = {}
    for c in calls:
        if c[2] in ("update", "write") and len(c) > 6:
            byslot[(c[1], c[2], c[3])] = c[6]
    for n in steps:
        rel, frc, wrt = byslot.get(("release", "update", n)), byslot.get(("forcing", "update", n)), byslot.get(("output", "write", n))
        if rel is not None and frc is not None:
            res.check(np.array_equal(rel["pid"], frc["pid"]), "forcing_before_release",
                      f"step {n}: forcing evaluated for pids {frc['pid']}, state after release has {rel['pid']}")
        if frc is not None and wrt is not None:
            ok = np.array_equal(frc["pid"], wrt["pid"]) and np.array_equal(frc["X"], wrt["X"]) and \
                np.array_equal(frc.get("temp"), wrt.get("temp"))
            res.check(ok, "record_not_from_forcing_state",
                      f"step {n}: the record is not written from the state the forcing was evaluated for")
        ibm, nxt = byslot.get(("ibm", "update", n)), byslot.get(("output", "write", n + 1))
        trk = byslot.get(("tracker", "update", n))
        if ibm is not None and trk is not None:
            res.check(np.array_equal(ibm["pid"], trk["pid"]), "ibm_particle_set",
                      f"step {n}: IBM saw pids {ibm['pid']}, tracker moved {trk['pid']}")
        if ibm is not None and nxt is not None:
            pos = {int(p): (x, y) for p, x, y in zip(ibm["pid"], ibm["X"], ibm["Y"])}
            alive = {int(p) for p, a in zip(ibm["pid"], ibm["alive"]) if a}
            nxt_pos = {int(p): (x, y) for p, x, y, a in zip(nxt["pid"], nxt["X"], nxt["Y"], nxt["alive"]) if a}
            common = alive & set(nxt_pos)
            res.check(all(pos[p] == nxt_pos[p] for p in common), "ibm_sees_unmoved_state",
                      f"step {n}: positions seen by the IBM differ from the next record's")
            dead = {int(p) for p, a in zip(ibm["pid"], ibm["alive"]) if not a}
            res.check(not (dead & set(nxt_pos)), "kill_not_effective",
                      f"step {n}: particles {sorted(dead & set(nxt_pos))} killed before/at this step are in the next record")
    # a particle the IBM (or the boundary) killed stays dead: it is alive in no later call and in no later record
    gone: set = set()
    for c in calls:
        if len(c) > 6 and isinstance(c[6], dict) and "alive" in c[6]:
            pid_, al_ = [int(p) for p in c[6]["pid"]], [bool(a) for a in c[6]["alive"]]
            back = {p for p, a in zip(pid_, al_) if a} & gone
            if not res.check(not back, "kill_undone",
                             f"{c[1]}.{c[2]} at step {c[3]}: particles {sorted(back)} were dead earlier and are alive again"):
                break
            gone |= {p for p, a in zip(pid_, al_) if not a}
    # ... and is in no record on file from the next one on, also when nobody at all is left alive
    for t_, pids_ in file_recs:
        n_ = int((np.datetime64(t_, "s") - np.datetime64(meta["start"], "s")) / np.timedelta64(sim.DT, "s"))
        dead_ = set()
        for c in calls:
            if len(c) > 6 and isinstance(c[6], dict) and "alive" in c[6] and c[3] is not None and \
                    (c[3] < n_ or (c[3] == n_ and c[1] in ("release", "forcing", "output"))):
                dead_ |= {int(p) for p, a in zip(c[6]["pid"], c[6]["alive"]) if not a}
        if not dead_:
            continue
        res.cls("record_after_a_kill")
        if not res.check(not (dead_ & set(pids_)), "killed_in_record_on_file",
                         f"the record of step {n_} ({t_}) on file holds pids {pids_}; {sorted(dead_ & set(pids_))} were dead "
                         f"before it was written"):
            break
    # close exactly once per recorded module, after the last update
    last_upd = max([i for i, c in enumerate(calls) if c[2] in ("update", "write")], default=-1)
    for s in recorded:
        cl = [i for i, c in enumerate(calls) if c[1] == s and c[2] == "close"]
        res.check(len(cl) == 1 and cl[0] > last_upd, "close_calls", f"{s}.close called {len(cl)} times (positions {cl}, last update {last_upd})")
    res.nontrivial = len(writes) >= 2 and len(writes) < len(list(steps))
    return res



# ---------------------------------------------------------------------------
# the same promise for a legacy (version 1) configuration: the user's IBM given by path is the one that runs,
# once per step, and is closed once - whether or not its section lists any variables
# ---------------------------------------------------------------------------


@st.composite
def legacy_cases(draw):
    from checks import c18

    a = draw(c18.abstract())
    a["ibm"] = False
    a["key"] = draw(st.sampled_from(["ibm_module", "ibm_module", "module"]))
    a["with_variables"] = draw(st.sampled_from([False, False, True]))
    a["plug_gf"] = False
    return a


def legacy_oracle(a) -> core.CaseResult:
    import yaml

    from checks import c18

    res = core.CaseResult()
    res.cls("legacy_ibm_" + ("with" if a["with_variables"] else "without") + "_variables")
    with e2e.workdir() as d:
        F = c18.build_files(d, a)
        conf = c18.render(a, F, d, "v1", "out.nc")
        src = (sim.PLUG / "rec_all.py").read_text()
        (d / "user_ibm.py").write_text(src)
        sec = dict(conf.get("ibm") or {})
        sec[a["key"]] = str(d / "user_ibm.py")
        if a["with_variables"] and "variables" not in sec:
            sec["variables"] = []
        if not a["with_variables"] and not sec.get("variables"):
            sec.pop("variables", None)
        conf["ibm"] = sec
        with open(d / "legacy.yaml", "w", encoding="utf-8") as f:
            yaml.safe_dump(conf, f, sort_keys=False)
        r = e2e.run_main(d / "legacy.yaml")
        if not res.check(r["status"] == "ok", "legacy_run_fails", f"{r['exc']}\n{(r['tb'] or '')[-500:]}"):
            return res
        calls = [e for e in r["log"] if e[0] == "call" and e[1] == "ibm"]
        upd = [c[3] for c in calls if c[2] == "update"]
        res.check(upd == list(range(a["nsteps"])), "legacy_ibm_calls",
                  f"the IBM named in the legacy file was called at steps {upd}, expected once per step 0..{a['nsteps'] - 1}")
        res.check(len([c for c in calls if c[2] == "close"]) == 1, "legacy_ibm_close",
                  f"close calls: {len([c for c in calls if c[2] == 'close'])}")
        res.check(all((d / c[4]).resolve() == (d / "user_ibm.py").resolve() for c in calls), "wrong_file_ran",
                  "another file than the configured IBM ran")
    res.nontrivial = a["nsteps"] >= 2
    return res


def shard(n, seed, known, max_steps):
    stt = core.Stats()
    if max_steps == "legacy":
        core.drive("legacy", legacy_cases(), legacy_oracle, n, seed, stt, known)
    else:
        core.drive("protocol", cases(max_steps), oracle, n, seed, stt, known)
    return stt


def run(ctx):
    jobs = [(k, core.subseed(ctx.seed, "p", i), ctx.known_sigs, ctx.n(12, 20))
            for i, k in enumerate(core.split(ctx.n(1200, 12000), 13))]
    jobs += [(k, core.subseed(ctx.seed, "legacy", i), ctx.known_sigs, "legacy")
             for i, k in enumerate(core.split(ctx.n(240, 3000), 3))]
    stats = core.Stats()
    for s in core.pmap(shard, jobs):
        stats.merge(s)
    return stats, dict(
        rule=("generated run lengths 1..12 (thorough 20), output periods 1..5, cold and warm start, and for each of the "
              "six pluggable slots a spelling of the recording plug-in: absolute path with/without .py, path relative "
              "to the working directory, bare name of a file in the working directory with a same-named decoy on "
              "sys.path, module name on sys.path, or the stock module; the call log must follow the protocol grammar "
              "and the state snapshots taken inside the calls must agree with it; non-trivial = >= 2 output steps and "
              ">= 1 non-output step"),
        assumptions=["recording classes are thin subclasses of the stock classes that log and delegate"],
    )


def replay(part, case):
    return legacy_oracle(case) if part == "legacy" else oracle(case)
