"""C04 - release accounting: each scheduled row yields exactly mult particles on time."""

from __future__ import annotations

import numpy as np
from hypothesis import strategies as st

from vlib import core, e2e, scen

PID = "C04"
LEVEL = "exploration"
DT = 60
SPELL = ["full", "quoted", "nosec", "full", "full"]


class LLGrid:
    """Plug-in grid with an affine lon/lat <-> grid coordinate map."""

    def ll2xy(self, lon, lat):
        lon = np.asarray(lon, float)
        lat = np.asarray(lat, float)
        return (lon - 2.0) / 0.02, (lat - 58.0) / 0.01


def spell(t, how):
    s = str(np.datetime64(t, "s"))
    if how == "quoted":
        return '"' + s.replace("T", " ") + '"'
    if how == "nosec" and s.endswith(":00"):
        s = s[:-3]
        if s.endswith(":00"):
            s = s[:-3]  # yyyy-mm-ddThh
        return s
    return s


@st.composite
def tables(draw):
    nsteps = draw(st.integers(1, 20))
    reverse = draw(st.booleans())
    cont = draw(st.booleans())
    freq = draw(st.integers(1, 4)) if cont else 0
    ntimes = draw(st.integers(1, 8))
    lo, hi = -6, nsteps + 6
    if cont:
        # file times on the tick grid anchored at the first file time
        first = draw(st.integers(lo, max(lo, nsteps - 1)))
        ks = sorted(set([0] + [draw(st.integers(0, 8)) for _ in range(ntimes - 1)]))
        steps = [first + k * freq for k in ks]
    else:
        steps = sorted(set(draw(st.integers(lo, hi)) for _ in range(ntimes)))
        if draw(st.booleans()):
            steps = sorted(set(steps + [0]))
    if not any(0 <= s < nsteps for s in steps):
        steps = sorted(set(steps + [draw(st.integers(0, nsteps - 1))]))
        if cont:
            first = min(steps)
            steps = sorted(set(first + ((s - first) // freq) * freq for s in steps))
            if not any(0 <= s < nsteps for s in steps) and not any(s < 0 for s in steps):
                steps = [0] + [s for s in steps if s > 0]
    has_mult = draw(st.booleans())
    rows = []
    tag = 0
    for s in steps:
        for _ in range(draw(st.integers(1, 4))):
            rows.append(dict(step=s, x=draw(st.floats(2, 30)), y=draw(st.floats(2, 30)), z=draw(st.floats(0, 50)),
                             mult=draw(st.integers(0, 5)) if has_mult else 1, kind=draw(st.integers(-3, 99)),
                             w=draw(st.floats(-10, 10)), hatch=draw(st.integers(-5000, 5000)), tag=tag))
            tag += 1
    extras = draw(st.lists(st.sampled_from(["kind", "w", "hatch"]), unique=True, max_size=3))
    as_pvar = draw(st.lists(st.sampled_from(["kind", "w", "hatch"]), unique=True, max_size=3))
    cols = ["release_time", "X", "Y", "Z"] + (["mult"] if has_mult else []) + extras
    perm = draw(st.permutations(cols))
    return dict(nsteps=nsteps, reverse=reverse, continuous=cont, freq=freq, rows=rows, has_mult=has_mult,
                extras=extras, as_pvar=[e for e in as_pvar if e in extras], cols=list(perm),
                header=draw(st.booleans()), lonlat=draw(st.booleans()),
                spell=draw(st.sampled_from(SPELL)), rt=draw(st.booleans()),
                # particles that die between releases and stay in the state (as under the dense output layout)
                kills=draw(st.sampled_from([0, 0, 0b1001, 0b110110])),
                # X, Y and lon, lat all in the table (documented: the grid position is used); lon/lat then are
                # ordinary extra columns, here deliberately pointing somewhere else
                both=draw(st.sampled_from([False, False, True])), defaults=draw(st.booleans()),
                # how the release frequency is written: seconds, [value, unit], ISO 8601 duration, timedelta
                freq_spell=draw(st.sampled_from(["int", "int", "list", "iso", "iso_full", "timedelta", "td64"])))


def spell_freq(n, how):
    """One of the accepted spellings of a period of n seconds (see the period property, C13)."""
    import datetime

    if how == "list":
        return [n // 60, "m"] if n % 60 == 0 else [n, "s"]
    if how == "iso":
        return f"PT{n // 3600}H" if n % 3600 == 0 else (f"PT{n // 60}M" if n % 60 == 0 else f"PT{n}S")
    if how == "iso_full":
        h, r = divmod(n, 3600)
        m, sec = divmod(r, 60)
        return "PT" + (f"{h}H" if h else "") + (f"{m}M" if m else "") + (f"{sec}S" if sec or not (h or m) else "")
    if how == "timedelta":
        return datetime.timedelta(seconds=n)
    if how == "td64":
        return np.timedelta64(n // 60, "m") if n % 60 == 0 else np.timedelta64(n, "s")
    return n


def expected_schedule(case):
    """step -> list of row dicts (each repeated mult times) in release order."""
    n = case["nsteps"]
    rows = case["rows"]
    out = {}
    if not case["continuous"]:
        for r in rows:
            if 0 <= r["step"] < n:
                out.setdefault(r["step"], []).extend([r] * r["mult"])
        return out
    ftimes = sorted(set(r["step"] for r in rows))
    t0 = ftimes[0]
    k = 0
    while True:
        tick = t0 + k * case["freq"]
        k += 1
        if tick >= n:
            break
        if tick < 0:
            continue
        latest = max(t for t in ftimes if t <= tick)
        for r in rows:
            if r["step"] == latest:
                out.setdefault(tick, []).extend([r] * r["mult"])
        out.setdefault(tick, [])
    return out


def oracle(case) -> core.CaseResult:
    from ladim.release import ParticleReleaser
    from ladim.state import State
    from ladim.timekeeper import TimeKeeper

    e2e.quiet()
    res = core.CaseResult()
    n = case["nsteps"]
    sgn = -1 if case["reverse"] else 1
    start = scen.T0 + scen.S(7200)
    stop = start + scen.S(sgn * n * DT)
    res.cls("continuous" if case["continuous"] else "discrete")
    res.cls("reversed" if case["reverse"] else "forward")
    res.cls("lonlat" if case["lonlat"] else "xy")
    res.cls("header" if case["header"] else "names")
    if case.get("both") and not case["lonlat"]:
        res.cls("xy_and_lonlat_columns")

    def T(step):
        return start + scen.S(sgn * step * DT)

    ivars, pvars = {}, {}
    for e in case["extras"]:
        typ = {"kind": int, "w": float, "hatch": "time"}[e]
        (pvars if e in case["as_pvar"] else ivars)[e] = typ
    if case["rt"]:
        pvars["release_time"] = "time"
    if case.get("both") and not case["lonlat"]:
        ivars["lon"] = float
        ivars["lat"] = float
    # variables that come with the release rows may also have a configured default (used only where no value
    # is given): the row's value wins
    defaults = {}
    if case.get("defaults"):
        defaults = {e: {"kind": 7, "w": 1.5}[e] for e in case["extras"] if e in ("kind", "w")}
    state = State(instance_variables=ivars, particle_variables=pvars, default_values=defaults or None)
    tk = TimeKeeper(start=e2e.iso(start), stop=e2e.iso(stop), dt=DT, time_reversal=case["reverse"])
    cols = list(case["cols"])
    both = bool(case.get("both")) and not case["lonlat"]
    if case["lonlat"]:
        cols = [{"X": "lon", "Y": "lat"}.get(c, c) for c in cols]
    elif both:
        cols = cols + ["lon", "lat"] if case["kills"] else ["lat"] + cols + ["lon"]
    lines = []
    for r in case["rows"]:
        vals = {"release_time": spell(T(r["step"]), case["spell"]), "X": repr(r["x"]), "Y": repr(r["y"]),
                "lon": repr(2.0 + 0.02 * (r["x"] + (1.7 if both else 0.0))),
                "lat": repr(58.0 + 0.01 * (r["y"] - (2.3 if both else 0.0))), "Z": repr(r["z"]),
                "mult": r["mult"], "kind": r["kind"], "w": repr(r["w"]),
                "hatch": str(np.datetime64(start + scen.S(r["hatch"]), "s"))}
        lines.append([vals[c] for c in cols])
    exp = expected_schedule(case)
    total_exp = sum(len(v) for v in exp.values())
    inside_times = len([s for s in set(r["step"] for r in case["rows"]) if 0 <= s < n])
    outside_rows = any(not (0 <= r["step"] < n) for r in case["rows"])
    res.nontrivial = (inside_times >= 2 or (case["continuous"] and len(exp) >= 2)) and \
        (outside_rows or any(r["mult"] != 1 for r in case["rows"]))
    with e2e.workdir() as d:
        e2e.write_release(d / "r.rls", lines, cols, header=case["header"])
        kw = {}
        if not case["header"]:
            kw["names"] = cols
        if case["continuous"]:
            kw["continuous"] = True
            kw["release_frequency"] = spell_freq(case["freq"] * DT, case.get("freq_spell", "int"))
        modules = dict(state=state, time=tk, grid=LLGrid())
        try:
            rel = ParticleReleaser(modules, str(d / "r.rls"), **kw)
        except SystemExit as e:
            rows_in = any(0 <= r["step"] < n for r in case["rows"]) or (case["continuous"] and exp)
            res.check(not rows_in, "valid_table_refused", f"release table with rows inside the window refused: {e!r}")
            res.cls("refused_empty_window")
            return res
        except BaseException as e:  # noqa: BLE001
            import traceback

            res.fail("releaser_raises", f"{e!r}\n{traceback.format_exc()[-600:]}")
            return res
    released = 0
    for step in range(n):
        before = len(state)
        try:
            tk.update()
            rel.update()
        except BaseException as e:  # noqa: BLE001
            import traceback

            res.fail("update_raises", f"step {step}: {e!r}\n{traceback.format_exc()[-500:]}")
            return res
        want = exp.get(step, [])
        got_n = len(state) - before
        if not res.check(got_n == len(want), "release_count",
                         f"step {step}: {got_n} particles released, expected {len(want)} "
                         f"(rows {[(r['tag'], r['mult']) for r in want[:6]]})"):
            return res
        for k, r in enumerate(want):
            idx = before + k
            pid = int(state["pid"][idx])
            tol = 1e-9 if case["lonlat"] else 1e-13  # text -> float parsing is not exactly round-trip
            okpos = abs(state["X"][idx] - r["x"]) <= tol * max(1, abs(r["x"])) and \
                abs(state["Y"][idx] - r["y"]) <= tol * max(1, abs(r["y"])) and \
                abs(state["Z"][idx] - r["z"]) <= 1e-13 * max(1, abs(r["z"]))
            if not res.check(okpos, "release_position_or_order",
                             f"step {step} particle {k} (pid {pid}): position ({state['X'][idx]}, {state['Y'][idx]}, "
                             f"{state['Z'][idx]}), expected row tag {r['tag']} at ({r['x']}, {r['y']}, {r['z']})"):
                return res
            if both:
                res.check(abs(state["lon"][idx] - (2.0 + 0.02 * (r["x"] + 1.7))) <= 1e-12 and
                          abs(state["lat"][idx] - (58.0 + 0.01 * (r["y"] - 2.3))) <= 1e-12, "extra_column_value",
                          f"step {step} pid {pid}: lon/lat columns given next to X, Y arrive as "
                          f"({state['lon'][idx]}, {state['lat'][idx]})")
            for e in case["extras"]:
                arr = state[e]
                v = arr[pid] if e in case["as_pvar"] else arr[idx]
                if e == "hatch":
                    ok = np.datetime64(str(v).replace(" ", "T"), "s") == np.datetime64(start + scen.S(r["hatch"]), "s")
                elif e == "w":
                    ok = abs(v - r[e]) <= 1e-13 * max(1, abs(r[e]))
                else:
                    ok = v == r[e]
                res.check(ok, "extra_column_value", f"step {step} pid {pid}: {e} = {v!r}, expected from row tag {r['tag']}")
            if case["rt"]:
                v = state["release_time"][pid]
                res.check(np.datetime64(v, "s") == np.datetime64(T(step), "s"), "release_time_value",
                          f"pid {pid} released at step {step}: release_time {v}, expected {T(step)}")
        released += got_n
        if case.get("kills"):
            for idx in range(len(state)):
                if (case["kills"] >> (idx % 8)) & 1 and (idx + step) % 3 == 0:
                    state["alive"][idx] = False
    if case.get("kills"):
        res.cls("deaths_between_releases")
    res.check(released == total_exp, "total_count", f"{released} released in the window, expected {total_exp}")
    pid = [int(p) for p in state["pid"]]
    res.check(pid == list(range(len(pid))), "pid_sequence", f"pids {pid[:10]}")
    return res



# ---------------------------------------------------------------------------
# release accounting of a warm-started run, end to end
# ---------------------------------------------------------------------------


@st.composite
def warm_cases(draw):
    from checks import c08

    scn = draw(c08.cases(14))
    scn["warm_point"] = draw(st.integers(0, 5))
    return scn


def warm_oracle(scn) -> core.CaseResult:
    """After a warm start the window begins at the restart time; what was released up to and at that time is in
    the restart file, every later row / tick is released at its own step, at its own position, in row order."""
    import copy

    from vlib import sim

    res = core.CaseResult()
    numrec = scn["output"]["numrec"]
    nsteps = scn["time"]["nsteps"]
    rel = scn["release"]
    res.cls("continuous" if rel["continuous"] else "discrete")
    with e2e.workdir() as d0, e2e.workdir() as d1:
        r0, m0 = sim.run(d0, scn, record_output=False)
        if not res.check(r0["status"] == "ok", "run_fails", f"base run: {r0['exc']}"):
            return res
        points = []
        for k, wname in enumerate(e2e.list_outputs(d0)):
            fk = e2e.read_sparse(d0 / wname)
            if len(fk["times"]) < numrec:
                continue
            done = int((fk["times"][-1] - m0["start"]) / np.timedelta64(sim.DT, "s"))
            if done < nsteps:
                points.append((k, wname, done, fk))
        if not points:
            res.cls("no_restart_point")
            return res
        k, wname, done, fk = points[scn["warm_point"] % len(points)]
        npid0 = int(fk["gattrs"].get("particles_released", -1))
        path, m1 = sim.build(d1, copy.deepcopy(scn), out_name=f"out_{k + 1:03d}.nc", record_output=False,
                             ibm_offset=done)
        conf = m1["conf"]
        del conf["time"]["start"]
        wvars = ["tag", "age"] + (["temp"] if scn["forcing"]["temp"] else []) + list(scn["pvars"])
        conf["warm_start"] = {"filename": str(d0 / wname), "variables": wvars}
        conf["release"]["module"] = str(sim.PLUG / "rec_all.py")  # snapshots the state right after every release
        e2e.write_yaml(conf, path)
        r1 = e2e.run_main(path)
        if not res.check(r1["status"] == "ok", "run_fails", f"warm start from {wname}: {r1['exc']}\n{(r1['tb'] or '')[-500:]}"):
            return res
        log = [e for e in r1["log"] if e[0] == "call" and e[1] == "release" and e[2] == "update"]
    placed = m1["placed"]
    fsteps = sorted(set(p["step"] for p in placed))

    def expected(a):
        if a >= nsteps:
            return []
        if not rel["continuous"]:
            rows = [p for p in placed if p["step"] == a]
        else:
            if (a - fsteps[0]) % rel["freq"] != 0 or a < fsteps[0]:
                return []
            latest = max(t for t in fsteps if t <= a)
            rows = [p for p in placed if p["step"] == latest]
        return [p for p in rows for _ in range(p["mult"])]

    seen = set(int(p) for p in fk["records"][-1]["pid"])
    next_pid = npid0 if npid0 >= 0 else (max(seen) + 1 if seen else 0)
    late = 0
    for e in log:
        nw, snap = e[3], e[6]
        a = done + nw
        new = [(int(p), float(x), float(y)) for p, x, y in zip(snap["pid"], snap["X"], snap["Y"])
               if int(p) not in seen and int(p) >= next_pid]
        want = expected(a) if nw >= 1 else []   # step 0 of the warm run: everything is in the restart file
        if not res.check(len(new) == len(want), "warm_release_count",
                         f"restart from {wname} (step {done}): at step {a} {len(new)} new particles, scheduled "
                         f"{len(want)} (rows {[(w['tag'], w['mult']) for w in want[:5]]})"):
            return res
        for (p, x, y), w in zip(new, want):
            ok = abs(x - w["x"]) <= 1e-12 * max(1, abs(w["x"])) and abs(y - w["y"]) <= 1e-12 * max(1, abs(w["y"]))
            if not res.check(ok, "warm_release_position",
                             f"restart from {wname} (step {done}): pid {p} released at step {a} at ({x}, {y}), "
                             f"scheduled row tag {w['tag']} at ({w['x']}, {w['y']})"):
                return res
        res.check([p for p, _, _ in new] == list(range(next_pid, next_pid + len(new))), "warm_release_pids",
                  f"step {a}: new pids {[p for p, _, _ in new]}, expected to continue at {next_pid}")
        next_pid += len(new)
        seen |= {p for p, _, _ in new}
        if new and nw >= 1:
            late += 1
    res.nontrivial = late >= 1
    at_restart = bool(expected(done)) if done < nsteps else False
    if at_restart:
        res.cls("rows_or_tick_at_the_restart_time")
    return res


def shard(part, n, seed, known):
    stt = core.Stats()
    if part == "warm":
        core.drive("warm", warm_cases(), warm_oracle, n, seed, stt, known)
    else:
        core.drive("table", tables(), oracle, n, seed, stt, known)
    return stt


def run(ctx):
    jobs = [("table", k, core.subseed(ctx.seed, "t", i), ctx.known_sigs)
            for i, k in enumerate(core.split(ctx.n(8000, 120000), 12))]
    jobs += [("warm", k, core.subseed(ctx.seed, "w", i), ctx.known_sigs)
             for i, k in enumerate(core.split(ctx.n(240, 4000), 4))]
    stats = core.Stats()
    for s in core.pmap(shard, jobs):
        stats.merge(s)
    return stats, dict(
        rule=("generated release tables (1..8 times x 1..4 rows, mult 0..5 or no mult column, times before / in / at / "
              "after the window, extra int/float/time columns as instance or particle variables, header or names, "
              "column permutations, timestamp spellings, X/Y or lon/lat, discrete or continuous with frequency m*dt, "
              "forward / reversed); the State is diffed after every timer.update(); release.update(); "
              "non-trivial = >= 2 release times (or ticks) inside the window and a row outside it or mult != 1; "
              "part 'warm': end-to-end run warm-started from a drawn file boundary of a split run with a recording "
              "release plug-in: nothing is released at the restart time (it is in the restart file), every later "
              "row / tick enters at its own step and position with the next pids"),
        assumptions=["times on the model grid, table sorted in simulation order, continuous file times on the tick grid",
                     "lon/lat through a plug-in grid with an affine ll2xy (real Grid: C16)",
                     "time-typed extra columns are compared by the instant they denote, not by dtype"],
    )


def replay(part, case):
    return warm_oracle(case) if part == "warm" else oracle(case)
