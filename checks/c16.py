"""C16 - longitude/latitude and grid coordinates are mutually consistent; 2-D sampler."""

from __future__ import annotations

import math

import numpy as np
from hypothesis import strategies as st

from vlib import core, e2e, roms, scen, sim

PID = "C16"
LEVEL = "exploration"


# ---------------------------------------------------------------------------
# part 1: sample2D
# ---------------------------------------------------------------------------

subst = st.sampled_from([None, 0.0, -1.0, 1e37, float("nan"), 5.5])


@st.composite
def sampler_cases(draw):
    return dict(jm=draw(st.integers(2, 30)), im=draw(st.integers(2, 30)),
                field=draw(st.sampled_from(["bilinear", "noise", "noise"])),
                mask=draw(st.sampled_from(["none", "none", "random", "sparse", "all0"])),
                seed=draw(st.integers(0, 10**6)), undef=draw(st.sampled_from([0.0, -99.0, 1e37])),
                outside=draw(subst), n=draw(st.integers(1, 12)),
                where=draw(st.sampled_from(["inside", "inside", "nodes", "mixed", "outside"])))


def ref_sample(F, M, x, y, undef):
    jm, im = F.shape
    i, j = int(math.floor(x)), int(math.floor(y))
    p, q = x - i, y - j
    tot = 0.0
    sw = 0.0
    vals = []
    for dj, di, w in ((0, 0, (1 - p) * (1 - q)), (1, 0, (1 - p) * q), (0, 1, p * (1 - q)), (1, 1, p * q)):
        if w == 0:
            continue
        m = 1.0 if M is None else float(M[j + dj, i + di])
        if m > 0:
            tot += w * F[j + dj, i + di]
            sw += w
            vals.append(F[j + dj, i + di])
    if sw == 0:
        return undef, []
    return tot / sw, vals


def sampler_oracle(case) -> core.CaseResult:
    from ladim.sample import sample2D

    res = core.CaseResult()
    jm, im = case["jm"], case["im"]
    rng = np.random.default_rng(case["seed"])
    jj, ii = np.mgrid[0:jm, 0:im].astype(float)
    if case["field"] == "bilinear":
        a, b, c, dd = rng.uniform(-2, 2, 4)
        F = a + b * ii + c * jj + dd * ii * jj
    else:
        F = rng.uniform(-5, 5, (jm, im))
    M = None
    if case["mask"] == "random":
        M = (rng.uniform(size=(jm, im)) > 0.4).astype(float)
    elif case["mask"] == "sparse":
        M = (rng.uniform(size=(jm, im)) > 0.85).astype(float)
    elif case["mask"] == "all0":
        M = np.zeros((jm, im))
    n = case["n"]
    X = rng.uniform(0, im - 1, n)
    Y = rng.uniform(0, jm - 1, n)
    if case["where"] in ("nodes", "mixed"):
        k = n if case["where"] == "nodes" else n // 2
        X[:k] = rng.integers(0, max(1, im - 1), k)
        Y[:k] = rng.integers(0, max(1, jm - 1), k)
    out_idx = []
    if case["where"] in ("outside", "mixed"):
        for k in range(n - 1, max(-1, n - 1 - max(1, n // 3)), -1):
            side = rng.integers(0, 4)
            if side == 0:
                X[k] = -rng.uniform(1e-9, 3)
            elif side == 1:
                X[k] = im - 1 + rng.uniform(0, 3)
            elif side == 2:
                Y[k] = -rng.uniform(1e-9, 3)
            else:
                Y[k] = jm - 1 + rng.uniform(0, 3)
            out_idx.append(k)
    X = np.minimum(X, np.where(np.isin(np.arange(n), out_idx), np.inf, np.nextafter(im - 1.0, 0)))
    Y = np.minimum(Y, np.where(np.isin(np.arange(n), out_idx), np.inf, np.nextafter(jm - 1.0, 0)))
    outside = (X < 0) | (X >= im - 1) | (Y < 0) | (Y >= jm - 1)
    res.cls("has_outside" if outside.any() else "all_inside")
    res.cls("masked" if M is not None else "unmasked")
    ov = case["outside"]
    kw = dict(undef_value=case["undef"])
    if M is not None:
        kw["mask"] = M
    if ov is not None:
        kw["outside_value"] = ov
    try:
        got = np.asarray(sample2D(F, X, Y, **kw), float)
    except ValueError as e:
        ok = outside.any() and ov is None
        res.check(ok, "unexpected_valueerror", f"ValueError {e} with outside={outside.tolist()} outside_value={ov}")
        res.nontrivial = ok
        return res
    except BaseException as e:  # noqa: BLE001
        res.fail("sampler_raises", repr(e))
        return res
    if not res.check(not (outside.any() and ov is None), "outside_not_rejected",
                     "points outside the grid and no outside_value: no ValueError"):
        return res
    if not res.check(got.shape == X.shape, "shape", f"{got.shape}"):
        return res
    scale = float(np.max(np.abs(F))) + 1.0
    for k in range(n):
        if outside[k]:
            same = (math.isnan(ov) and math.isnan(got[k])) or got[k] == ov
            res.check(same, "outside_value" + ("_zero" if ov == 0.0 else ""),
                      f"point ({X[k]}, {Y[k]}) outside {jm}x{im} grid: got {got[k]}, requested substitute {ov}")
            continue
        want, vals = ref_sample(F, M, X[k], Y[k], case["undef"])
        if not vals:
            res.check(got[k] == case["undef"], "undef_value", f"all corners masked at ({X[k]}, {Y[k]}): got {got[k]}")
            continue
        res.check(abs(got[k] - want) <= 1e-12 * scale, "sample_value",
                  f"({X[k]}, {Y[k]}): got {got[k]}, reference {want}")
        res.check(min(vals) - 1e-12 * scale <= got[k] <= max(vals) + 1e-12 * scale, "sample_convex",
                  f"({X[k]}, {Y[k]}): {got[k]} outside corner range [{min(vals)}, {max(vals)}]")
        if case["field"] == "bilinear" and M is None:
            exact = a + b * X[k] + c * Y[k] + dd * X[k] * Y[k]
            res.check(abs(got[k] - exact) <= 1e-11 * scale * max(im, jm), "bilinear_exact",
                      f"({X[k]}, {Y[k]}): got {got[k]} exact {exact}")
    if M is not None and not outside.all():
        F2 = np.where(M > 0, F, rng.uniform(-1e6, 1e6, F.shape))
        got2 = np.asarray(sample2D(F2, X, Y, **kw), float)
        same = np.all((got2 == got) | (np.isnan(got2) & np.isnan(got)))
        res.check(same, "masked_nodes_used", "changing F at masked nodes changes the result")
    res.nontrivial = bool((~outside).any() and np.any(X != np.floor(X))) or bool(outside.any())
    return res


# ---------------------------------------------------------------------------
# part 2: polar-stereographic grids, xy2ll / ll2xy round trip
# ---------------------------------------------------------------------------

R_EARTH = 6371e3
K0 = R_EARTH * (1 + math.sin(math.radians(60.0)))


@st.composite
def grid_cases(draw, maxn=60):
    res_m = draw(st.sampled_from([160.0, 800.0, 4000.0, 20000.0]))
    jm = draw(st.integers(8, maxn))
    im = draw(st.integers(8, maxn))
    half = 0.5 * res_m * math.hypot(jm, im)
    dmin = max(800e3, half / 0.6)
    if dmin > 4000e3:
        im = jm = 40
        half = 0.5 * res_m * math.hypot(jm, im)
        dmin = max(800e3, half / 0.6)
    d = draw(st.floats(dmin, max(dmin, 4000e3)))
    sub = None
    if draw(st.booleans()):
        i0 = draw(st.integers(1, im - 5))
        i1 = draw(st.integers(i0 + 4, im - 1))
        j0 = draw(st.integers(1, jm - 5))
        j1 = draw(st.integers(j0 + 4, jm - 1))
        sub = [i0, i1, j0, j1]
    return dict(res=res_m, jm=jm, im=im, d=d, rot=draw(st.floats(0, 360)), bearing=draw(st.floats(0, 360)),
                lon0=draw(st.floats(-120, 120)), sub=sub, seed=draw(st.integers(0, 10**6)),
                npts=draw(st.sampled_from([20, 50])))


def polar_lonlat(case):
    jm, im = case["jm"], case["im"]
    jj, ii = np.mgrid[0:jm, 0:im].astype(float)
    a = math.radians(case["rot"])
    xi = (ii - 0.5 * (im - 1)) * case["res"]
    yj = (jj - 0.5 * (jm - 1)) * case["res"]
    b = math.radians(case["bearing"])
    xc, yc = case["d"] * math.sin(b), -case["d"] * math.cos(b)
    xp = xc + xi * math.cos(a) - yj * math.sin(a)
    yp = yc + xi * math.sin(a) + yj * math.cos(a)
    r = np.hypot(xp, yp)
    lat = 90.0 - 2.0 * np.degrees(np.arctan(r / K0))
    ang = np.degrees(np.arctan2(xp, -yp))  # (-180, 180]
    # unwrap around the grid centre's angle so that the field is continuous
    angc = math.degrees(b)
    ang = (ang - angc + 180.0) % 360.0 - 180.0 + angc
    lon = case["lon0"] + ang
    return lon, lat


def ref_bilin(F, x, y):
    i = np.floor(x).astype(int)
    j = np.floor(y).astype(int)
    i = np.minimum(i, F.shape[1] - 2)
    j = np.minimum(j, F.shape[0] - 2)
    p, q = x - i, y - j
    return ((1 - p) * (1 - q) * F[j, i] + p * (1 - q) * F[j, i + 1] + (1 - p) * q * F[j + 1, i] + p * q * F[j + 1, i + 1])


def grid_positions(case, sub):
    i0, i1, j0, j1 = sub
    rng = np.random.default_rng(case["seed"] + 3)
    n = case["npts"]
    lo_x, hi_x, lo_y, hi_y = i0 + 0.5, i1 - 1.5, j0 + 0.5, j1 - 1.5
    X = rng.uniform(lo_x, hi_x, n)
    Y = rng.uniform(lo_y, hi_y, n)
    X[0], Y[0] = np.nextafter(lo_x, hi_x), np.nextafter(lo_y, hi_y)
    X[1], Y[1] = np.nextafter(hi_x, lo_x), np.nextafter(hi_y, lo_y)
    X[2], Y[2] = np.nextafter(lo_x, hi_x), np.nextafter(hi_y, lo_y)
    X[3], Y[3] = np.nextafter(hi_x, lo_x), np.nextafter(lo_y, hi_y)
    if n > 6:
        X[4], Y[4] = math.ceil(lo_x), math.ceil(lo_y)
        X[5] = math.ceil(lo_x) + 0.5 if math.ceil(lo_x) + 0.5 < hi_x else X[5]
    return X, Y


def grid_oracle(case) -> core.CaseResult:
    from ladim.ROMS import Grid

    e2e.quiet()
    res = core.CaseResult()
    lon, lat = polar_lonlat(case)
    jm, im = case["jm"], case["im"]
    G = roms.make_grid(jm, im, N=2, hval=100.0, dx=case["res"], lonlat=(lon, lat))
    sub = case["sub"] or [1, im - 1, 1, jm - 1]
    res.cls("subgrid" if case["sub"] else "fullgrid")
    res.cls(f"res_{int(case['res'])}")
    span = float(lon.max() - lon.min())
    with e2e.workdir() as d:
        roms.write_roms(d / "g.nc", G, [], np.zeros((0, 2, jm, im - 1)), np.zeros((0, 2, jm - 1, im)))
        kw = {"filename": str(d / "g.nc")}
        if case["sub"]:
            kw["subgrid"] = list(case["sub"])
        g = Grid(**kw)
    X, Y = grid_positions(case, sub)
    # forward: xy2ll equals bilinear interpolation of the file's coordinates
    try:
        glon, glat = g.xy2ll(X, Y)
    except BaseException as e:  # noqa: BLE001
        res.fail("xy2ll_raises", repr(e))
        return res
    wlon, wlat = ref_bilin(lon, X, Y), ref_bilin(lat, X, Y)
    res.check(np.allclose(glon, wlon, rtol=0, atol=1e-10) and np.allclose(glat, wlat, rtol=0, atol=1e-10),
              "xy2ll_value", "xy2ll differs from bilinear interpolation of lon_rho/lat_rho")
    try:
        X2, Y2 = g.ll2xy(glon, glat)
        X2, Y2 = np.asarray(X2, float), np.asarray(Y2, float)
    except BaseException as e:  # noqa: BLE001
        res.fail("ll2xy_raises", f"ll2xy raised {e!r} for positions inside the valid region of a "
                                 f"{jm}x{im} grid (res {case['res']} m, subgrid {case['sub']})")
        return res
    i0, i1, j0, j1 = sub
    inside = (X2 >= i0) & (X2 <= i1 - 1) & (Y2 >= j0) & (Y2 <= j1 - 1) & np.isfinite(X2) & np.isfinite(Y2)
    if not res.check(bool(inside.all()), "ll2xy_outside_array",
                     f"ll2xy returned positions outside the loaded array: {X2[~inside][:3]}, {Y2[~inside][:3]}"):
        return res
    rlon, rlat = ref_bilin(lon, X2, Y2), ref_bilin(lat, X2, Y2)
    H = (rlon - glon) ** 2 + (rlat - glat) ** 2
    res.check(bool(np.all(H < 1e-7 * 1.0001)), "roundtrip_residual",
              f"xy2ll(ll2xy(.)) misses the target by more than the solver tolerance: max residual {H.max():.3g} deg^2 "
              f"at ({X[np.argmax(H)]}, {Y[np.argmax(H)]}) -> ({X2[np.argmax(H)]}, {Y2[np.argmax(H)]})")
    # grid-unit bound from the local Jacobian
    k = int(np.argmax(np.hypot(X2 - X, Y2 - Y)))
    jj, ii = int(min(Y[k], jm - 2)), int(min(X[k], im - 2))
    J = np.array([[lon[jj, ii + 1] - lon[jj, ii], lon[jj + 1, ii] - lon[jj, ii]],
                  [lat[jj, ii + 1] - lat[jj, ii], lat[jj + 1, ii] - lat[jj, ii]]])
    smin = float(np.linalg.svd(J, compute_uv=False).min())
    bound = 1.5 * math.sqrt(1e-7) / smin + 1e-6
    err = float(np.hypot(X2[k] - X[k], Y2[k] - Y[k]))
    res.check(err <= bound, "roundtrip_position",
              f"round trip moved ({X[k]}, {Y[k]}) by {err:.3g} cells, bound from solver tolerance {bound:.3g}")
    res.nontrivial = span > 1.0 or case["res"] <= 800
    if span > 1.0:
        res.cls("lonspan>1deg")
    return res


# ---------------------------------------------------------------------------
# part 3: release by lon/lat and lon/lat in the output (end to end)
# ---------------------------------------------------------------------------


def e2e_oracle(case) -> core.CaseResult:
    res = core.CaseResult()
    lon, lat = polar_lonlat(case)
    jm, im = case["jm"], case["im"]
    G = roms.make_grid(jm, im, N=2, hval=100.0, dx=case["res"], lonlat=(lon, lat))
    sub = case["sub"] or [1, im - 1, 1, jm - 1]
    X, Y = grid_positions(dict(case, npts=8), sub)
    rlon, rlat = ref_bilin(lon, X, Y), ref_bilin(lat, X, Y)
    DT = 600
    with e2e.workdir() as d:
        start = scen.T0
        stop = start + scen.S(3 * DT)
        U, V = scen.vel_arrays(G, 2, {"kind": "const", "u": 0.02 * case["res"] / DT, "v": -0.01 * case["res"] / DT})
        fname, _ = scen.write_forcing(d, G, [start - scen.S(DT), stop + scen.S(DT)], U, V)
        rows = [[e2e.iso(start), repr(float(a)), repr(float(b)), 1.0] for a, b in zip(rlon, rlat)]
        e2e.write_release(d / "rel.rls", rows, ["release_time", "lon", "lat", "Z"])
        conf = e2e.base_conf(d, start, stop, DT, fname, d / "rel.rls", period=DT,
                             ivars=("pid", "X", "Y", "Z", "lon", "lat"))
        conf["state"] = {"instance_variables": {"lon": "float", "lat": "float"},
                         "default_values": {"lon": 0.0, "lat": 0.0}}
        if case["sub"]:
            conf["grid"]["subgrid"] = list(case["sub"])
        if case["seed"] % 3 == 0:
            # a user's IBM that asks the grid for lon/lat at the state's positions and then moves the particles
            # a little with the in-place idiom state["X"] += ...
            conf["ibm"] = {"module": str(sim.PLUG / "ibm_script.py"), "ask_lonlat": True, "wander": [0.05, -0.03]}
            res.cls("ibm_asks_lonlat_and_moves_in_place")
        numrec = (0, 0, 1, 2, 3)[case["seed"] % 5]   # split output: lon/lat must land in the record of their X, Y
        dense = case["seed"] % 7 == 0
        if numrec:
            conf["output"]["numrec"] = numrec
            res.cls(f"numrec{numrec}")
        if dense:
            conf["output"]["layout"] = "dense"
            res.cls("dense")
        e2e.write_yaml(conf, d / "ladim.yaml")
        r = e2e.run_main(d / "ladim.yaml")
        if not res.check(r["status"] == "ok", "lonlat_run_fails",
                         f"{r['exc']}\n{(r['tb'] or '')[-500:]}"):
            return res
        recs = []
        try:
            for name in e2e.list_outputs(d):
                if dense:
                    g = e2e.read_dense(d / name)
                    for n in range(len(g["times"])):
                        m = ~np.ma.getmaskarray(np.ma.asarray(g["inst"]["X"][n]))
                        recs.append({v: np.asarray(np.ma.asarray(g["inst"][v][n])[m]) for v in ("X", "Y", "lon", "lat")})
                else:
                    recs += e2e.read_sparse(d / name)["records"]
        except Exception as e:  # noqa: BLE001
            res.fail("lonlat_output_unreadable", repr(e))
            return res
        f = {"records": recs}
    if not res.check(len(recs) == 3, "lonlat_record_count", f"{len(recs)} records in the output, 3 scheduled"):
        return res
    rec0 = f["records"][0]
    if not res.check(len(rec0["X"]) == len(X), "lonlat_release_count", f"{len(rec0['X'])} particles"):
        return res
    H = (ref_bilin(lon, rec0["X"], rec0["Y"]) - rlon) ** 2 + (ref_bilin(lat, rec0["X"], rec0["Y"]) - rlat) ** 2
    res.check(bool(np.all(H < 1e-7 * 1.0001)), "release_lonlat_residual",
              f"released at X={rec0['X'][:3]}, Y={rec0['Y'][:3]}: interpolated lon/lat miss the release file's by {H.max():.3g} deg^2")
    for n, rec in enumerate(f["records"]):
        wl, wa = ref_bilin(lon, rec["X"], rec["Y"]), ref_bilin(lat, rec["X"], rec["Y"])
        res.check(len(rec["lon"]) == len(rec["X"]) and np.allclose(rec["lon"], wl, rtol=0, atol=1e-9)
                  and np.allclose(rec["lat"], wa, rtol=0, atol=1e-9),
                  "output_lonlat", f"record {n}: lon/lat differ from bilinear interpolation at the record's X, Y")
    res.nontrivial = len(f["records"]) >= 2
    res.cls("subgrid" if case["sub"] else "fullgrid")
    return res


def shard(part, n, seed, known, maxn):
    stt = core.Stats()
    if part == "sampler":
        core.drive(part, sampler_cases(), sampler_oracle, n, seed, stt, known)
    elif part == "grid":
        core.drive(part, grid_cases(maxn=maxn), grid_oracle, n, seed, stt, known)
    else:
        core.drive(part, grid_cases(maxn=30), e2e_oracle, n, seed, stt, known)
    return stt


def run(ctx):
    jobs = []
    maxn = ctx.n(60, 200)
    for part, nq, nt, k in (("sampler", 12000, 150000, 5), ("grid", 1600, 10000, 7), ("e2e", 300, 3000, 4)):
        for i, m in enumerate(core.split(ctx.n(nq, nt), k)):
            jobs.append((part, m, core.subseed(ctx.seed, part, i), ctx.known_sigs, maxn))
    stats = core.Stats()
    for s in core.pmap(shard, jobs):
        stats.merge(s)
    return stats, dict(
        rule=("sampler: generated fields (bilinear / noise), masks, positions inside / on nodes / outside, substitute "
              "values incl. 0.0 and NaN vs an independent masked-bilinear reference; grid: polar-stereographic grids "
              "(160 m .. 20 km, 8..60 (thorough 200) cells, 800..4000 km from the pole, any rotation), subgrids, 20-50 "
              "positions incl. the rim; ll2xy(xy2ll(.)) must return, stay inside, and meet the solver's residual; "
              "e2e: release by lon/lat and lon/lat output through ladim.main; non-trivial (grid) = longitude span > 1 deg "
              "or resolution <= 800 m"),
        assumptions=["round trip judged by the solver's own stopping criterion (dlon^2+dlat^2 < 1e-7 deg^2) and the "
                     "grid-unit bound it implies through the local Jacobian",
                     "grids do not straddle the +-180 discontinuity (longitudes unwrapped)"],
    )


def replay(part, case):
    return {"sampler": sampler_oracle, "grid": grid_oracle, "e2e": e2e_oracle}[part](case)
