"""C07 - every scheduled output time is written for any duration, period, file split.

Exhaustive enumeration of (nsteps, period, numrec, layout, pvar, direction, file name)
inside a box; oracle = predicted record times / file names / counts, and split == unsplit.
"""

from __future__ import annotations

import itertools
import math
from pathlib import Path

import numpy as np
from netCDF4 import Dataset

from vlib import core, e2e, roms, scen

PID = "C07"
LEVEL = "exploration"
DT = 60
G = None


def grid():
    global G
    if G is None:
        G = roms.make_grid(7, 8, N=2, hval=50.0, dx=100.0)
    return G


def build_and_run(d: Path, case, numrec, out_name):
    nsteps, period, layout, pvar, reverse = (case["nsteps"], case["period"], case["layout"],
                                              case["pvar"], case["reverse"])
    Gd = grid()
    off = int(case.get("stop_off", 0))  # seconds by which the stop time lies beyond the last whole step
    if reverse:
        start = scen.T0 + scen.S(40 * DT)
        stop = start - scen.S(nsteps * DT + off)
        frames = [stop - scen.S(2 * DT), start + scen.S(2 * DT)]
    else:
        start = scen.T0
        stop = start + scen.S(nsteps * DT + off)
        frames = [start - scen.S(2 * DT), stop + scen.S(2 * DT)]
    U, V = scen.vel_arrays(Gd, 2, {"kind": "const", "u": 0.05, "v": -0.02})
    fname, _ = scen.write_forcing(d, Gd, frames, U, V)
    sgn = -1 if reverse else 1
    rows = [[e2e.iso(start), 3.2, 3.1, 5.0]]
    if nsteps > 2:
        rows.append([e2e.iso(start + scen.S(sgn * 2 * DT)), 4.4, 2.7, 1.0])
    e2e.write_release(d / "rel.rls", rows, ["release_time", "X", "Y", "Z"])
    conf = e2e.base_conf(d, start, stop, DT, fname, d / "rel.rls", out=out_name,
                         period=period * DT, numrec=numrec, layout=layout, reverse=reverse)
    if pvar:
        conf["state"] = {"particle_variables": {"release_time": "time"}}
        conf["output"]["particle_variables"] = {
            "release_time": e2e.outvar("f8", units="seconds since reference_time")}
    e2e.write_yaml(conf, d / "ladim.yaml")
    r = e2e.run_main(d / "ladim.yaml")
    return r, start


def read_any(path, layout):
    """-> list of (time, {pid: X}) for every record + pvar array (or None)."""
    recs = []
    if layout == "sparse":
        f = e2e.read_sparse(path)
        for t, rec in zip(f["times"], f["records"]):
            recs.append((t, {int(p): float(x) for p, x in zip(rec["pid"], rec["X"])}))
        pv = f["pvars"].get("release_time")
    else:
        f = e2e.read_dense(path)
        X = f["inst"]["X"]
        for n, t in enumerate(f["times"]):
            row = np.ma.asarray(X[n])
            m = np.ma.getmaskarray(row)
            recs.append((t, {int(p): float(row[p]) for p in range(len(row)) if not m[p]}))
        pv = f["pvars"].get("release_time")
    return recs, pv


_unsplit_cache: dict = {}


def unsplit_records(case):
    key = (case["nsteps"], case["period"], case["layout"], case["pvar"], case["reverse"], case.get("stop_off", 0))
    if key not in _unsplit_cache:
        with e2e.workdir() as d:
            r, _ = build_and_run(d, case, 0, "out.nc")
            if r["status"] != "ok":
                _unsplit_cache[key] = ("fail", r["exc"])
            else:
                try:
                    _unsplit_cache[key] = ("ok", read_any(d / "out.nc", case["layout"])[0])
                except Exception as e:  # noqa: BLE001
                    _unsplit_cache[key] = ("fail", f"unreadable: {e!r}")
    return _unsplit_cache[key]


def expected_names(out_name, numrec, R):
    if numrec == 0:
        return [out_name]
    nfiles = math.ceil(R / numrec)
    # documented numbering: cake.nc -> cake_000.nc, cake_001.nc, ...; cake_04.nc -> cake_04.nc, cake_05.nc, ...
    import re

    stem = out_name[:-3]
    m = re.search(r"_(\d+)$", stem)
    if not m:
        return [f"{stem}_{k:03d}.nc" for k in range(nfiles)]
    first, width, root = int(m.group(1)), len(m.group(1)), stem[:m.start()]
    return [f"{root}_{first + k:0{width}d}.nc" for k in range(nfiles)]


def oracle(case) -> core.CaseResult:
    res = core.CaseResult()
    nsteps, period, numrec = case["nsteps"], case["period"], case["numrec"]
    R = len([k for k in range(nsteps) if k % period == 0])
    res.nontrivial = (nsteps % period != 0) or (numrec > 0 and R % numrec != 0)
    res.cls("residue_steps" if nsteps % period else "multiple_steps")
    if numrec:
        res.cls("residue_records" if R % numrec else "full_last_file")
    sgn = -1 if case["reverse"] else 1
    with e2e.workdir() as d:
        r, start = build_and_run(d, case, numrec, case["fname"])
        if not res.check(r["status"] == "ok", "run_fails",
                         f"run did not end normally: {r['exc']}\n{(r['tb'] or '')[-600:]}"):
            return res
        names = e2e.list_outputs(d, "out")
        exp = expected_names(case["fname"], numrec, R)
        if not res.check(names == exp, "file_set", f"files {names} expected {exp}"):
            return res
        allrecs = []
        for n, name in enumerate(exp):
            try:
                recs, pv = read_any(d / name, case["layout"])
            except Exception as e:  # noqa: BLE001
                res.fail("unreadable", f"{name}: {e!r}")
                return res
            want = R if numrec == 0 else min(numrec, R - n * numrec)
            res.check(len(recs) == want, "records_per_file",
                      f"{name}: {len(recs)} records, expected {want}")
            if case["pvar"]:
                ok = pv is not None and len(pv) >= 1 and not np.ma.getmaskarray(pv)[0] \
                    and np.isfinite(float(pv[0]))
                res.check(ok, "pvar_missing", f"{name}: particle variable not written: {pv!r}")
                if ok:
                    # every pid present in the file's records has its release time stored
                    pids = set().union(*[set(rec) for _, rec in recs]) if recs else set()
                    m = np.ma.getmaskarray(pv)
                    bad = [p for p in pids if p >= len(pv) or m[p] or not np.isfinite(float(pv[p]))]
                    res.check(not bad, "pvar_missing", f"{name}: no particle variable for pids {bad}")
            allrecs.extend(recs)
        times = [t for t, _ in allrecs]
        exp_times = [start + scen.S(sgn * k * period * DT) for k in range(R)]
        res.check(times == exp_times, "record_times",
                  f"times {[str(t) for t in times]} expected {[str(t) for t in exp_times]}")
        if numrec:
            st, un = unsplit_records(case)
            if st == "ok":
                same = len(un) == len(allrecs) and all(
                    a[0] == b[0] and a[1] == b[1] for a, b in zip(un, allrecs))
                res.check(same, "split_differs", "concatenated split files differ from unsplit run")
            else:
                res.fail("run_fails", f"unsplit reference run failed: {un}")
    return res


def all_cases(quick):
    ns = range(1, 10) if quick else range(1, 15)
    ps = range(1, 4) if quick else range(1, 6)
    nr = (0, 1, 2, 3) if quick else (0, 1, 2, 3, 4)
    cases = []
    for nsteps, period, numrec, layout, pvar, reverse, fname in itertools.product(
            ns, ps, nr, ("sparse", "dense"), (False, True), (False, True), ("out.nc", "out_07.nc", "out_0000.nc", "out_2000_00.nc")):
        cases.append(dict(nsteps=nsteps, period=period, numrec=numrec, layout=layout,
                          pvar=pvar, reverse=reverse, fname=fname))
        if fname == "out.nc":  # a duration that is not a whole number of time steps: floor(duration / dt) steps
            cases.append(dict(cases[-1], stop_off=25))
    return cases


def shard(cases, known):
    st = core.Stats()
    core.enumerate_cases("sched", cases, oracle, st, known)
    return st


def run(ctx):
    cases = all_cases(ctx.quick)
    # group by the unsplit key so the per-worker cache is effective
    cases.sort(key=lambda c: (c["nsteps"], c["period"], c["layout"], c["pvar"], c["reverse"]))
    k = core.NWORKERS * 4
    size = math.ceil(len(cases) / k)
    chunks = [cases[i:i + size] for i in range(0, len(cases), size)]
    stats = core.Stats()
    for s in core.pmap(shard, [(c, ctx.known_sigs) for c in chunks]):
        stats.merge(s)
    return stats, dict(
        rule=("exhaustive product nsteps x period x numrec x layout x pvar x direction x file name "
              "inside the tier's box; non-trivial = nsteps % period != 0 or records % numrec != 0; "
              "distinct = distinct tuples"),
        exhaustive=True,
        extra={"box": {"nsteps": [1, 9 if ctx.quick else 14], "period": [1, 3 if ctx.quick else 5],
                       "numrec": [0, 3 if ctx.quick else 4]}},
        assumptions=["constant velocity field, 2 particles; dt = 60 s",
                     "netCDF4 reads back what was written"],
    )


def replay(part, case):
    return oracle(case)
