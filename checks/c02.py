"""C02 - particles feel the interpolated C-grid forcing at their own position."""

from __future__ import annotations

import itertools

import numpy as np
from hypothesis import strategies as st

from vlib import core, e2e, roms, scen

PID = "C02"
LEVEL = "exploration"
DT = 600


@st.composite
def cases(draw, big=False):
    hi = 24 if big else 14
    jm = draw(st.integers(6, hi))
    im = draw(st.integers(6, hi))
    N = draw(st.sampled_from([1, 2, 2, 3, 4, 5, 8, 12]))
    sub = None
    if draw(st.booleans()):
        i0 = draw(st.integers(1, im - 4))
        i1 = draw(st.integers(i0 + 3, im - 1))
        j0 = draw(st.integers(1, jm - 4))
        j1 = draw(st.integers(j0 + 3, jm - 1))
        sub = [i0, i1, j0, j1]
    neg = draw(st.booleans())
    return dict(jm=jm, im=im, N=N, sub=sub, neg=neg,
                vt=draw(st.sampled_from([1, 2])), h=draw(st.sampled_from(["flat", "slope", "noise"])),
                hval=draw(st.sampled_from([5.0, 80.0, 3000.0])),
                mask=draw(st.sampled_from(["none", "none", "islands", "random", "coast"])),
                levels=draw(st.sampled_from(["uniform", "random"])),
                storage=draw(st.sampled_from(["f8", "f8", "f4", "i2"])),
                field=draw(st.sampled_from(["noise", "noise", "linear", "linear_z"])),
                seed=draw(st.integers(0, 10**6)), npos=draw(st.sampled_from([24, 48])),
                scalars=draw(st.sampled_from([[], ["temp"], ["temp", "salt"]])),
                # which of the two frames is sampled (step 0 = first frame, step 4 = second frame), whether the
                # second frame lives in a file of its own, and how that file is stored (own packing parameters)
                frame=draw(st.sampled_from([0, 0, 1])), two_files=draw(st.booleans()),
                storage2=draw(st.sampled_from(["f8", "f4", "i2", "i2b"])),
                # particles that die after the forcing was evaluated and are removed from the state (what a sparse
                # output record does) before the tracker asks for the velocity of the survivors; 0 = nobody
                drop=draw(st.sampled_from([0, 0, 0b0101101, 0b1000000000001, 0b11])),
                zhist=draw(st.sampled_from([False, False, True, "inplace"])),
                # the first frame happens to be clean (zero) on land faces, the second one is not
                land0=draw(st.booleans()),
                # vertical set-up given explicitly in the configuration (Vinfo) and deliberately different from
                # what the file records: other transform, other critical depth, stretching from parameters
                vinfo=draw(st.one_of(st.none(), st.none(), st.fixed_dictionaries(dict(
                    theta_s=st.floats(1.0, 7.0), theta_b=st.floats(0.1, 1.0), Vstretching=st.sampled_from([1, 2, 4]),
                    hcf=st.floats(0.1, 0.9))))),
                # a backwards run: the clock starts at the later frame and the particles feel the opposite velocity
                reverse=draw(st.sampled_from([False, False, True])))


def build_fields(case, G):
    jm, im, N = case["jm"], case["im"], case["N"]
    rng = np.random.default_rng(case["seed"])
    lin = None
    if case["field"] == "noise":
        U = rng.uniform(-1, 1, (2, N, jm, im - 1))
        V = rng.uniform(-1, 1, (2, N, jm - 1, im))
    else:
        a, b, c = rng.uniform(-1, 1, 3)
        a2, b2, c2 = rng.uniform(-1, 1, 3)
        jj, ii = np.mgrid[0:jm, 0:im - 1].astype(float)
        U0 = a + 0.05 * b * (ii + 0.5) + 0.05 * c * jj
        jj, ii = np.mgrid[0:jm - 1, 0:im].astype(float)
        V0 = a2 + 0.05 * b2 * ii + 0.05 * c2 * (jj + 0.5)
        U = np.broadcast_to(U0, (2, N, jm, im - 1)).copy()
        V = np.broadcast_to(V0, (2, N, jm - 1, im)).copy()
        lin = dict(u=(a, 0.05 * b, 0.05 * c), v=(a2, 0.05 * b2, 0.05 * c2), gz=0.0)
        if case["field"] == "linear_z":
            # add a term linear in level depth; only exact over a flat bottom
            zr = roms.grid_zr(G)
            gz = float(rng.uniform(-1, 1)) / max(1.0, case["hval"])
            zu = 0.5 * (zr[:, :, :-1] + zr[:, :, 1:])
            zv = 0.5 * (zr[:, :-1, :] + zr[:, 1:, :])
            U = U + gz * zu[None]
            V = V + gz * zv[None]
            lin["gz"] = gz
        # keep the field inside what the packed storages can hold without clipping (u: 3.2, v: 2.4 m/s), otherwise
        # the stored field is no longer linear and the closed form below does not describe it
        fct = min(1.0, 2.8 / max(float(np.abs(U).max()), 1e-9), 2.2 / max(float(np.abs(V).max()), 1e-9))
        U, V = U * fct, V * fct
        lin = dict(u=tuple(fct * t for t in lin["u"]), v=tuple(fct * t for t in lin["v"]), gz=fct * lin["gz"])
        U[1] += 0.3  # second frame differs (must not leak into step 0)
    extra = {nm: rng.uniform(-5, 30, (2, N, jm, im)) for nm in case["scalars"]}
    return U, V, extra, lin


def positions(case, G, sub):
    i0, i1, j0, j1 = sub
    lo_x, hi_x = i0 + 0.5, i1 - 1.5
    lo_y, hi_y = j0 + 0.5, j1 - 1.5
    rng = np.random.default_rng(case["seed"] + 5)
    n = case["npos"]
    X = rng.uniform(lo_x, hi_x, n)
    Y = rng.uniform(lo_y, hi_y, n)
    # boundary-biased third: integers, half-integers, +-ulp, rim
    specials_x = [v for v in np.arange(np.ceil(lo_x * 2) / 2, hi_x, 0.5) if lo_x < v < hi_x]
    specials_y = [v for v in np.arange(np.ceil(lo_y * 2) / 2, hi_y, 0.5) if lo_y < v < hi_y]
    for k in range(n // 3):
        mode = rng.integers(0, 6)
        if specials_x and mode in (0, 2, 3):
            X[k] = specials_x[rng.integers(len(specials_x))]
        if specials_y and mode in (1, 2, 4):
            Y[k] = specials_y[rng.integers(len(specials_y))]
        if mode == 3:
            X[k] = np.nextafter(X[k], X[k] + (1 if rng.integers(2) else -1))
        if mode == 4:
            Y[k] = np.nextafter(Y[k], Y[k] + (1 if rng.integers(2) else -1))
        if mode == 5:
            X[k] = np.nextafter(lo_x, hi_x) if rng.integers(2) else np.nextafter(hi_x, lo_x)
            Y[k] = np.nextafter(lo_y, hi_y) if rng.integers(2) else np.nextafter(hi_y, lo_y)
    X = np.clip(X, np.nextafter(lo_x, hi_x), np.nextafter(hi_x, lo_x))
    Y = np.clip(Y, np.nextafter(lo_y, hi_y), np.nextafter(hi_y, lo_y))
    J = np.floor(Y + 0.5).astype(int)
    I = np.floor(X + 0.5).astype(int)
    h = G["h"][J, I]
    Z = rng.uniform(0, 1, n) * h
    zr = roms.grid_zr(G)
    for k in range(0, n, 5):
        mode = rng.integers(0, 5)
        if mode == 0:
            Z[k] = 0.0
        elif mode == 1:
            Z[k] = -0.3 * h[k]        # above the surface
        elif mode == 2:
            Z[k] = h[k] * rng.choice([1.0, 1.5, 2.0])  # at / below the bottom
        elif mode == 3:
            Z[k] = -zr[rng.integers(case["N"]), J[k], I[k]]  # exactly on a level
    return X, Y, Z


def ladim_sample(d, fname, sub, case, X, Y, Z, ffile=None, nupdates=1):
    from ladim.model import init_module

    modules = {}
    ivars = {nm: "float" for nm in case["scalars"]}
    modules["state"] = init_module("state", {"instance_variables": ivars,
                                             "default_values": {nm: 0.0 for nm in ivars}}, modules)
    tconf = {"start": e2e.iso(scen.T0), "stop": e2e.iso(scen.T0 + scen.S(4 * DT)), "dt": DT}
    if case.get("reverse"):
        tconf.update(start=tconf["stop"], stop=tconf["start"], time_reversal=True)
    modules["time"] = init_module("time", tconf, modules)
    gconf = {"filename": str(fname)}
    if sub is not None:
        gconf["subgrid"] = list(sub)
    if case.get("Vinfo"):
        gconf["Vinfo"] = dict(case["Vinfo"])
    modules["grid"] = init_module("grid", gconf, modules)
    fconf = {"filename": str(ffile or fname)}
    if case["scalars"]:
        fconf["extra_forcing"] = list(case["scalars"])
    modules["forcing"] = init_module("forcing", fconf, modules)
    state, timer, force = modules["state"], modules["time"], modules["forcing"]
    zhist = bool(case.get("zhist")) and nupdates > 1
    if zhist:
        # depth history: the particles sit at mid-depth during the earlier steps and are moved to their final
        # depths (incl. above the top / below the bottom level) just before the last forcing update
        J0, I0 = np.floor(Y + 0.5).astype(int), np.floor(X + 0.5).astype(int)
        state.append(X=X, Y=Y, Z=0.5 * np.asarray(case["_h"])[J0, I0])
    else:
        state.append(X=X, Y=Y, Z=Z)
    for k_ in range(nupdates):
        if zhist and k_ == nupdates - 1:
            if case.get("zhist") == "inplace":
                state["Z"][:] = Z   # the way `state["Z"] += ...` in an IBM or the tracker's own `Z += w*dt` changes depth
            else:
                state["Z"] = Z
        timer.update()
        force.update()
    keep = np.ones(len(X), bool)
    if case.get("drop"):
        dead = [k for k in range(len(X)) if (case["drop"] >> (k % 16)) & 1]
        keep[dead] = False
        state["alive"][dead] = False
        state.compactify()
        u, v = force.velocity(state.X, state.Y, state.Z)
    else:
        u, v = force.velocity(X, Y, Z)
    sgn = -1.0 if case.get("reverse") else 1.0  # backwards: the flow of opposite sign (C10); compared as the flow itself
    out = dict(u=sgn * np.array(u), v=sgn * np.array(v), vu=sgn * np.array(force.variables["u"])[keep],
               vv=sgn * np.array(force.variables["v"])[keep], keep=keep, Cs_r=np.array(modules["grid"].Cs_r, float))
    for nm in case["scalars"]:
        out[nm] = np.array(force.variables[nm], float)[keep]
        out["state_" + nm] = np.array(state[nm], float)
    force.close()
    return out


def oracle(case) -> core.CaseResult:
    e2e.quiet()
    res = core.CaseResult()
    jm, im, N = case["jm"], case["im"], case["N"]
    if case.get("vinfo") and case["field"] == "linear_z":
        case = dict(case, field="linear")  # the linear-in-depth recipe is built on the file's own levels
    mask = "none" if case["field"] != "noise" else case["mask"]
    h = "flat" if case["field"] == "linear_z" else case["h"]
    G = roms.make_grid(jm, im, N=N, h=h, hval=case["hval"], mask=mask, dx=800.0, levels=case["levels"],
                       Vtransform=case["vt"], hc=min(3.0, case["hval"]), seed=case["seed"])
    U, V, extra, lin = build_fields(case, G)
    if case.get("land0") and mask != "none":
        Mu_, Mv_ = roms.face_masks(G["mask"])
        U[0] *= Mu_[None]
        V[0] *= Mv_[None]
        res.cls("first_frame_zero_on_land")
    stor = {"f8": "f8", "f4": "f4", "i2": ("i2", 1.0e-4 if case["field"] != "linear_z" else 2e-4),
            "i2b": ("i2", 2.5e-4)}
    storage = stor[case["storage"]]
    fr = case.get("frame", 0)
    rev = bool(case.get("reverse"))
    fe = 1 - fr if rev else fr  # the file frame in force: a backwards run starts at the later one
    if rev:
        res.cls("backwards_run")
    two = bool(case.get("two_files"))
    st2 = case.get("storage2", "f8") if two else case["storage"]
    storage2 = stor[st2]
    if case["storage"] == "i2" or st2 in ("i2", "i2b"):
        extra = {k: np.clip(v, -3, 3) for k, v in extra.items()}
    sub_eff = case["sub"] or [1, im - 1, 1, jm - 1]
    sub_cfg = case["sub"]
    if sub_cfg is not None and case["neg"]:
        sub_cfg = [sub_cfg[0], sub_cfg[1] - im, sub_cfg[2], sub_cfg[3] - jm]
    res.cls("subgrid" if case["sub"] else "fullgrid")
    res.cls(f"storage_{case['storage']}")
    res.cls(f"field_{case['field']}")
    res.cls("N1" if N == 1 else "N>=2")
    if case.get("vinfo"):
        vi = case["vinfo"]
        vt2 = 3 - case["vt"]  # the transform the file does not record
        hc2 = vi["hcf"] * float(G["h"].min()) if vt2 == 1 else 0.5 * vi["hcf"] * case["hval"] + 0.1
        case = dict(case, Vinfo=dict(N=N, hc=hc2, theta_s=vi["theta_s"], theta_b=vi["theta_b"],
                                     Vstretching=vi["Vstretching"], Vtransform=vt2))
        res.cls("vertical_setup_from_Vinfo")
    res.cls(f"frame{fr}" + ("_own_file_" + ("other_storage" if st2 != case["storage"] else "same_storage") if two else ""))
    with e2e.workdir() as d:
        times = [scen.T0, scen.T0 + scen.S(4 * DT)]
        if two:
            gfile, ffile = d / "f_000.nc", d / "f_*.nc"
            d0 = roms.write_roms(gfile, G, times[:1], U[:1], V[:1], extra={k: v[:1] for k, v in extra.items()},
                                 storage=storage)
            d1 = roms.write_roms(d / "f_001.nc", G, times[1:], U[1:], V[1:], extra={k: v[1:] for k, v in extra.items()},
                                 storage=storage2)
            dec = {k: [d0[k][0], d1[k][0]] for k in d0}
        else:
            gfile = ffile = d / "f.nc"
            dec = roms.write_roms(gfile, G, times, U, V, extra=extra, storage=storage)
        X, Y, Z = positions(case, G, sub_eff)
        case = dict(case, _h=G["h"])
        if case.get("zhist") and fr == 1:
            res.cls("depth_changed_before_the_last_update" + ("_in_place" if case["zhist"] == "inplace" else ""))
        nup = 1 if fr == 0 else 5   # Model.update order: clock, forcing; step 4 is the second frame
        try:
            got = ladim_sample(d, gfile, sub_cfg, case, X, Y, Z, ffile=ffile, nupdates=nup)
            got_full = ladim_sample(d, gfile, None, case, X, Y, Z, ffile=ffile, nupdates=nup) if case["sub"] else None
        except BaseException as e:  # noqa: BLE001
            import traceback

            res.fail("sampling_raises", f"{e!r}\n{traceback.format_exc()[-700:]}")
            return res
    if case.get("drop"):
        res.cls("velocity_after_dead_removed")
        X, Y, Z = X[got["keep"]], Y[got["keep"]], Z[got["keep"]]
    zr = roms.grid_zr(G)
    if case.get("Vinfo"):
        # levels from the requested set-up: the library's stretching curve (judged by C12) through the reference
        # depth formula with the requested transform and critical depth
        zr = roms.ref_zr(G["h"], case["Vinfo"]["hc"], got["Cs_r"], case["Vinfo"]["Vtransform"], "rho")
    U0, V0 = np.asarray(dec["u"][fe], float), np.asarray(dec["v"][fe], float)
    scale = max(1.0, float(np.max(np.abs(U0))), float(np.max(np.abs(V0))))
    st_fr = st2 if fe == 1 else case["storage"]
    # a frame reached through the per-step increments (u += dU, four times) carries a few more roundings
    tol = ((1e-12 if (st_fr == "f8" and case["storage"] == "f8" and st2 == "f8") else 8 * 2.0**-23) * scale) * (1 if fr == 0 else 3)
    nontriv = 0
    for n in range(len(X)):
        cand = list(itertools.product(roms.cell_candidates(X[n]), roms.cell_candidates(Y[n])))
        best = None
        for cell in cand:
            ru, rv, raw_u, raw_v, ka = roms.ref_velocity_one(G, zr, U0, V0, X[n], Y[n], Z[n], cell=cell)
            err = max(abs(got["u"][n] - ru), abs(got["v"][n] - rv))
            if best is None or err < best[0]:
                best = (err, ru, rv, raw_u, raw_v, cell)
        err, ru, rv, raw_u, raw_v, cell = best
        res.check(err <= tol, "velocity_value",
                  f"pos ({X[n]!r}, {Y[n]!r}, Z={Z[n]!r}) sub={case['sub']}: got ({got['u'][n]}, {got['v'][n]}), "
                  f"reference ({ru}, {rv}) cell {cell}")
        res.check(min(raw_u) - tol <= got["u"][n] <= max(raw_u) + tol and
                  min(raw_v) - tol <= got["v"][n] <= max(raw_v) + tol, "convexity",
                  f"pos ({X[n]}, {Y[n]}, {Z[n]}): ({got['u'][n]}, {got['v'][n]}) outside node range "
                  f"u[{min(raw_u)}, {max(raw_u)}] v[{min(raw_v)}, {max(raw_v)}]")
        res.check(abs(got["vu"][n] - got["u"][n]) <= tol and abs(got["vv"][n] - got["v"][n]) <= tol, "variables_uv",
                  f"forcing.variables u/v differ from velocity() at particle {n}")
        if lin is not None:
            zc = min(max(-Z[n], zr[0, cell[1], cell[0]]), zr[-1, cell[1], cell[0]])
            wu = lin["u"][0] + lin["u"][1] * X[n] + lin["u"][2] * Y[n] + lin["gz"] * zc + (0.3 if fe == 1 else 0.0)
            wv = lin["v"][0] + lin["v"][1] * X[n] + lin["v"][2] * Y[n] + lin["gz"] * zc
            ltol = tol + (3e-4 if st_fr in ("i2", "i2b") else 0) + 1e-9
            res.check(abs(got["u"][n] - wu) <= ltol and abs(got["v"][n] - wv) <= ltol, "linear_exact",
                      f"linear field not reproduced at ({X[n]}, {Y[n]}, {Z[n]}): got ({got['u'][n]}, {got['v'][n]}) "
                      f"want ({wu}, {wv})")
        if got_full is not None:
            same = abs(got_full["u"][n] - got["u"][n]) <= tol and abs(got_full["v"][n] - got["v"][n]) <= tol
            res.check(same, "subgrid_dependence",
                      f"pos ({X[n]}, {Y[n]}): subgrid {case['sub']} gives ({got['u'][n]}, {got['v'][n]}), "
                      f"full grid ({got_full['u'][n]}, {got_full['v'][n]})")
        for nm in case["scalars"]:
            F = np.asarray(dec[nm][fe], float)
            cands = []
            for ci, cj in cand:
                # a depth within rounding of a level may be bracketed from either side
                for zz in (Z[n], Z[n] * (1 + 1e-9) + 1e-9, Z[n] * (1 - 1e-9) - 1e-9):
                    k, _ = roms.vert_weights(zr[:, cj, ci], zz)
                    cands += [F[k, cj, ci], F[max(k - 1, 0), cj, ci]]
            gv = got[nm][n]
            res.check(any(abs(gv - c) <= 1e-6 * max(1, abs(c)) for c in cands), "scalar_value",
                      f"{nm} at ({X[n]}, {Y[n]}, {Z[n]}) = {gv}, expected one of {cands}")
            res.check(got["state_" + nm][n] == gv, "scalar_state_copy", f"state[{nm}] != forcing.variables[{nm}]")
            if got_full is not None:
                res.check(got_full[nm][n] == gv, "subgrid_dependence_scalar",
                          f"{nm} at ({X[n]}, {Y[n]}): subgrid {gv}, full grid {got_full[nm][n]}")
        if X[n] != np.floor(X[n]) and Y[n] != np.floor(Y[n]) and len(set(raw_u)) > 1:
            nontriv += 1
    res.nontrivial = nontriv >= 3 and (case["sub"] is None or (sub_eff[0] > 1 and sub_eff[2] > 1) or True)
    if mask != "none":
        res.cls("with_land")
    return res


def shard(n, seed, known, big):
    stt = core.Stats()
    core.drive("sample", cases(big=big), oracle, n, seed, stt, known)
    return stt


def run(ctx):
    jobs = [(k, core.subseed(ctx.seed, "s", i), ctx.known_sigs, not ctx.quick)
            for i, k in enumerate(core.split(ctx.n(2400, 24000), 16))]
    stats = core.Stats()
    for s in core.pmap(shard, jobs):
        stats.merge(s)
    return stats, dict(
        rule=("generated synthetic ROMS files (size, N, Vtransform, stretching, bathymetry, masks with garbage on land "
              "faces, f8/f4/packed i2, legal subgrids incl. negative spellings) x 24-48 positions (uniform + edges, "
              "corners, +-1 ulp, rim; depths on levels, above surface, below bottom); oracle: independent C-grid "
              "interpolator, convexity, exactness on linear fields, subgrid vs full grid; non-trivial = >= 3 positions "
              "off the integer lattice with non-constant surrounding nodes"),
        assumptions=["at exactly half-way positions either neighbouring cell may be the particle's own cell",
                     "tolerance 1e-12 (f8) / 8*2^-23 (f4, packed) relative to max |node|"],
    )


def replay(part, case):
    return oracle(case)
