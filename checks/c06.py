"""C06 - output records are faithful snapshots in a well-formed ragged or dense file."""

from __future__ import annotations

import numpy as np
from hypothesis import strategies as st

from vlib import core, e2e, sim

PID = "C06"
LEVEL = "exploration"


def enc_equal(file_vals, state_vals, dtype):
    """Equality up to the output encoding."""
    a = np.asarray(file_vals)
    b = np.asarray(state_vals)
    if a.shape != b.shape:
        return False
    if dtype == "f4":
        return bool(np.all((a.astype("f4") == b.astype("f4")) | (np.isnan(a) & np.isnan(b))))
    if a.dtype.kind == "f" or b.dtype.kind == "f":
        return bool(np.all((a == b) | (np.isnan(a.astype(float)) & np.isnan(b.astype(float)))))
    return bool(np.all(a == b))


def out_files(d, scn):
    names = e2e.list_outputs(d, "out")
    return names


def ref_lonlat(X, Y):
    X = np.asarray(X, float)
    Y = np.asarray(Y, float)
    return 2.0 + 0.02 * X + 0.003 * Y, 58.0 + 0.01 * Y - 0.002 * X


def oracle(scn) -> core.CaseResult:
    res = core.CaseResult()
    res.cls(scn["output"]["layout"])
    if scn["output"].get("pack_age") or scn["output"].get("pack_xy"):
        res.cls("packed_variable")
    with e2e.workdir() as d:
        r, meta = sim.run(d, scn)
        writes = [e for e in r["log"] if e[0] == "write"]
        if not res.check(r["status"] == "ok", "run_fails", f"{r['exc']}\n{(r['tb'] or '')[-700:]}"):
            return res
        names = out_files(d, scn)
        ref = np.datetime64(meta["ref"], "s")
        check_records(res, d, names, writes, ref, scn)
    return res


def warm_oracle(scn) -> core.CaseResult:
    """The same record-by-record comparison for a run that was warm-started from a restart file."""
    import copy

    res = core.CaseResult()
    res.cls(scn["output"]["layout"])
    if scn["output"].get("pack_age"):
        res.cls("packed_variable")
    numrec = scn["output"]["numrec"]
    nsteps = scn["time"]["nsteps"]
    with e2e.workdir() as d0, e2e.workdir() as d1:
        r0, m0 = sim.run(d0, scn, record_output=False)
        if not res.check(r0["status"] == "ok", "run_fails", f"base run: {r0['exc']}\n{(r0['tb'] or '')[-500:]}"):
            return res
        names0 = e2e.list_outputs(d0)
        points = []
        for k, wname in enumerate(names0):
            fk = e2e.read_sparse(d0 / wname)
            if len(fk["times"]) < numrec:
                continue
            done = int((fk["times"][-1] - m0["start"]) / np.timedelta64(sim.DT, "s"))
            if done < nsteps:
                points.append((k, wname, done))
        if not points:
            res.cls("no_restart_point")
            return res
        k, wname, done = points[scn["warm_point"] % len(points)]
        s1 = copy.deepcopy(scn)
        path, m1 = sim.build(d1, s1, out_name=f"out_{k + 1:03d}.nc", record_output=True, ibm_offset=done)
        conf = m1["conf"]
        del conf["time"]["start"]
        wvars = ["tag", "age"] + (["temp"] if scn["forcing"]["temp"] else []) + list(scn["pvars"])
        conf["warm_start"] = {"filename": str(d0 / wname), "variables": wvars}
        e2e.write_yaml(conf, path)
        r1 = e2e.run_main(path)
        if not res.check(r1["status"] == "ok", "run_fails", f"warm start from {wname}: {r1['exc']}\n{(r1['tb'] or '')[-600:]}"):
            return res
        writes = [e for e in r1["log"] if e[0] == "write"]
        # the model time of a record is the restart time plus its step count (not whatever the clock object says)
        t_restart = np.datetime64(m0["start"], "s") + np.timedelta64(done * sim.DT, "s")
        for w in writes:
            res.check(np.datetime64(w[2], "s") == t_restart + np.timedelta64(w[1] * sim.DT, "s"), "record_model_time",
                      f"warm start from {wname} at {t_restart}: record of step {w[1]} written with model time {w[2]}")
        names = e2e.list_outputs(d1)
        # without a configured reference time the file's own reference is taken as given (the restart time)
        ref = np.datetime64(m1["ref"], "s") if scn["output"]["ref"] != "none" else None
        check_records(res, d1, names, writes, ref, scn)
        res.cls("warm_start")
    return res


def check_records(res, d, names, writes, ref, scn):
        o = scn["output"]
        layout = o["layout"]
        dtype = o["dtype"]
        recno = 0
        pidsets = []
        for name in names:
            try:
                f = e2e.read_sparse(d / name) if layout == "sparse" else e2e.read_dense(d / name)
            except Exception as e:  # noqa: BLE001
                res.fail("unreadable", f"{name}: {e!r}")
                return res
            nrec = len(f["tvals"])
            if not res.check(recno + nrec <= len(writes), "extra_records",
                             f"{name}: more records than writes ({recno + nrec} > {len(writes)})"):
                return res
            if ref is None:
                ref = f["ref"]
            res.check(f["ref"] == ref, "time_units", f"{name}: reference {f['ref']} expected {ref}")
            if layout == "sparse":
                res.check(int(f["count"].sum()) == f["ninst"], "count_sum",
                          f"{name}: sum(particle_count) {int(f['count'].sum())} != instance dimension {f['ninst']}")
            last_w = None
            for n in range(nrec):
                w = writes[recno + n]
                _, step, tstr, snap, pv, npid = w
                last_w = w
                t = np.datetime64(tstr, "s")
                want_t = (t - ref) / np.timedelta64(1, "s")
                res.check(float(f["tvals"][n]) == float(want_t), "time_value",
                          f"{name} rec {n}: time {f['tvals'][n]} expected {want_t} ({t})")
                pids = [int(p) for p in snap["pid"]]
                pidsets.append(frozenset(pids))
                if layout == "sparse":
                    rec = f["records"][n]
                    if not res.check(int(f["count"][n]) == len(pids), "count",
                                     f"{name} rec {n}: particle_count {f['count'][n]} but {len(pids)} alive"):
                        continue
                    for var, vals in rec.items():
                        if var in ("lon", "lat"):
                            lo, la = ref_lonlat(snap["X"], snap["Y"])
                            want = lo if var == "lon" else la
                            ok = np.allclose(vals, want, rtol=0, atol=1e-9 if dtype == "f8" else 1e-4)
                            res.check(ok, "lonlat", f"{name} rec {n}: {var} {vals} expected {want}")
                            continue
                        vd = "i4" if var in ("pid", "tag") else dtype
                        if var in ("X", "Y") and o.get("pack_xy"):
                            okv = np.allclose(vals, snap[var], rtol=0, atol=0.5 * o["pack_xy"] * (1 + 1e-6))
                        else:
                            okv = enc_equal(vals, snap[var], vd)
                        res.check(okv, "instance_value",
                                  f"{name} rec {n} step {step}: {var} = {vals}, state had {snap[var]}")
                else:
                    for var, arr in f["inst"].items():
                        row = np.ma.asarray(arr[n])
                        m = np.ma.getmaskarray(row)
                        if var in ("lon", "lat"):
                            lo, la = ref_lonlat(snap["X"], snap["Y"])
                            want = lo if var == "lon" else la
                        else:
                            want = snap[var]
                        okp = all(p < len(row) and not m[p] for p in pids)
                        if not res.check(okp, "dense_missing",
                                         f"{name} rec {n}: {var} has no value for some living pid {pids} (mask {m})"):
                            continue
                        got = np.array([row[p] for p in pids])
                        if var in ("lon", "lat"):
                            ok = np.allclose(got, want, rtol=0, atol=1e-9 if dtype == "f8" else 1e-4)
                        elif var in ("X", "Y") and o.get("pack_xy"):
                            ok = np.allclose(got, want, rtol=0, atol=0.5 * o["pack_xy"] * (1 + 1e-6))
                        else:
                            ok = enc_equal(got, want, "i4" if var == "tag" else dtype)
                        res.check(ok, "instance_value" if var not in ("lon", "lat") else "lonlat",
                                  f"{name} rec {n}: {var}[{pids}] = {got}, state had {want}")
                        others = [p for p in range(len(row)) if p not in set(pids)]
                        bad = [p for p in others if not m[p]]
                        res.check(not bad, "dense_not_filled",
                                  f"{name} rec {n}: {var} holds values for pids {bad} that are not alive "
                                  f"(alive {pids}): {[row[p] for p in bad]}")
            # particle variables of this file: state at the last write into it
            if last_w is not None and scn["pvars"]:
                _, step, tstr, snap, pv, npid = last_w
                for var in scn["pvars"]:
                    got = f["pvars"].get(var)
                    if not res.check(got is not None, "pvar_absent", f"{name}: no variable {var}"):
                        continue
                    m = np.ma.getmaskarray(got)
                    ok = len(got) >= npid and not np.any(m[:npid])
                    if not res.check(ok, "pvar_unwritten",
                                     f"{name}: {var} not stored for all {npid} particles released so far: {got}"):
                        continue
                    if var == "release_time":
                        want = (pv[var][:npid].astype("M8[s]") - ref) / np.timedelta64(1, "s")
                    else:
                        want = pv[var][:npid]
                    res.check(enc_equal(np.asarray(got[:npid]), want, dtype if var == "X0" else "f8"),
                              "pvar_value", f"{name}: {var} = {got[:npid]}, state had {want}")
            recno += nrec
        res.check(recno == len(writes), "missing_records", f"{recno} records on file, {len(writes)} writes")
        changes = sum(1 for a, b in zip(pidsets, pidsets[1:]) if a != b)
        res.nontrivial = changes >= 1
        if any(len(s) == 0 for s in pidsets):
            res.cls("has_empty_record")
        if pidsets and pidsets[-1] and writes and max(pidsets[-1]) < writes[-1][5] - 1:
            res.cls("trailing_pids_dead")
        deaths = any(a - b for a, b in zip(pidsets, pidsets[1:]))
        res.cls("with_deaths" if deaths else "no_deaths")
        if scn["pvars"]:
            res.cls("with_pvars")
        return res


def pid_law_oracle(scn) -> core.CaseResult:
    """C05 output side: pid strictly increasing and pid[k] >= k in every record."""
    res = core.CaseResult()
    with e2e.workdir() as d:
        r, meta = sim.run(d, scn, record_output=False)
        if r["status"] != "ok":
            res.cls("run_failed_not_judged_here")
            return res
        seen_death = False
        prev = None
        pv_seen: dict = {}
        for name in e2e.list_outputs(d, "out"):
            f = e2e.read_sparse(d / name)
            for n, rec in enumerate(f["records"]):
                pid = [int(p) for p in rec["pid"]]
                # per-particle values are found at index pid in this file, and are the same in every file
                for var, arr in f["pvars"].items():
                    m = np.ma.getmaskarray(arr)
                    for p_ in pid:
                        okp = p_ < len(arr) and not m[p_] and not (arr.dtype.kind == "f" and np.isnan(arr[p_]))
                        if not res.check(okp, "pvar_not_at_pid", f"{name} rec {n}: {var}[pid {p_}] is missing ({arr})"):
                            break
                        if var != "release_time":  # stored relative to the file's own reference time
                            first = pv_seen.setdefault((var, p_), arr[p_].item())
                            res.check(first == arr[p_].item(), "pvar_changes_between_files",
                                      f"{name}: {var}[pid {p_}] = {arr[p_]}, an earlier file had {first}")
                res.check(all(a < b for a, b in zip(pid, pid[1:])), "record_pid_order",
                          f"{name} rec {n}: pid not strictly increasing {pid}")
                res.check(all(p >= k for k, p in enumerate(pid)), "record_pid_ge_k",
                          f"{name} rec {n}: pid[k] < k in {pid}")
                if prev is not None and set(prev) - set(pid):
                    seen_death = True
                if seen_death and pid:
                    res.nontrivial = True
                prev = pid
    return res


@st.composite
def cases(draw):
    scn = draw(sim.scenario(dtypes=("f8", "f8", "f4"), stop_offsets=(0, 0, 17, 59)))
    scn["output"]["pack_age"] = draw(st.sampled_from([None, None, None, [0.25, -3.0], [0.5, 0.0]]))
    scn["output"]["pack_xy"] = draw(st.sampled_from([None, None, None, 0.01, 0.001]))
    return scn


@st.composite
def warm_cases(draw):
    from checks import c08

    scn = draw(c08.cases(14))
    scn["output"]["layout"] = "sparse"
    scn["output"]["dtype"] = draw(st.sampled_from(["f8", "f8", "f4"]))
    scn["warm_point"] = draw(st.integers(0, 5))
    return scn


def pid_law_warm_oracle(scn) -> core.CaseResult:
    """C05 output side across a restart: a warm-started run never hands out an identifier that an earlier
    particle had (dead or alive), and its records obey the same ordering laws."""
    import copy

    res = core.CaseResult()
    numrec = scn["output"]["numrec"]
    nsteps = scn["time"]["nsteps"]
    with e2e.workdir() as d0, e2e.workdir() as d1:
        r0, m0 = sim.run(d0, scn, record_output=False)
        if r0["status"] != "ok":
            res.cls("run_failed_not_judged_here")
            return res
        names0 = e2e.list_outputs(d0)
        files = {n: e2e.read_sparse(d0 / n) for n in names0}
        points = []
        for k, wname in enumerate(names0):
            fk = files[wname]
            if len(fk["times"]) < numrec:
                continue
            done = int((fk["times"][-1] - m0["start"]) / np.timedelta64(sim.DT, "s"))
            if done < nsteps:
                points.append((k, wname, done))
        if not points:
            res.cls("no_restart_point")
            return res
        k, wname, done = points[scn["warm_point"] % len(points)]
        old = set()
        for n in names0[:k + 1]:
            for rec in files[n]["records"]:
                old |= {int(p) for p in rec["pid"]}
        live = {int(p) for p in files[wname]["records"][-1]["pid"]}
        path, m1 = sim.build(d1, copy.deepcopy(scn), out_name=f"out_{k + 1:03d}.nc", record_output=False,
                             ibm_offset=done)
        conf = m1["conf"]
        del conf["time"]["start"]
        wvars = ["tag", "age"] + (["temp"] if scn["forcing"]["temp"] else []) + list(scn["pvars"])
        conf["warm_start"] = {"filename": str(d0 / wname), "variables": wvars}
        e2e.write_yaml(conf, path)
        r1 = e2e.run_main(path)
        if r1["status"] != "ok":
            res.cls("run_failed_not_judged_here")
            return res
        seen = set(live)
        top = max(old) if old else -1
        fresh = 0
        for name in e2e.list_outputs(d1):
            f = e2e.read_sparse(d1 / name)
            for n, rec in enumerate(f["records"]):
                pid = [int(p) for p in rec["pid"]]
                res.check(all(a < b for a, b in zip(pid, pid[1:])), "record_pid_order",
                          f"after restart, {name} rec {n}: pid not strictly increasing {pid}")
                res.check(all(p >= j for j, p in enumerate(pid)), "record_pid_ge_k",
                          f"after restart, {name} rec {n}: pid[k] < k in {pid}")
                for p_ in pid:
                    if p_ in seen:
                        continue
                    if not res.check(p_ > top, "pid_reused_after_restart",
                                     f"restart from {wname}: {name} rec {n} shows a new particle with pid {p_}, but "
                                     f"identifiers up to {top} were already used before the restart (alive at the "
                                     f"restart: {sorted(live)})"):
                        return res
                    seen.add(p_)
                    fresh += 1
        res.nontrivial = fresh >= 1
        if old - live:
            res.cls("dead_identifiers_before_restart")
        if old and max(old) not in live:
            res.cls("highest_identifier_dead_at_restart")
    return res


@st.composite
def pid_warm_cases(draw):
    """Restart scenarios biased towards what makes identifier reuse possible: the youngest particles die soon
    (short lifetime), releases keep coming (continuous), and often no particle variable is written."""
    scn = draw(warm_cases())
    if draw(st.booleans()):
        scn["pvars"] = []
    if draw(st.booleans()):
        # the youngest particles are seen in one file, die, and are absent from every record of the next file,
        # from which the run is restarted; a release follows later
        nst = scn["time"]["nsteps"] = max(scn["time"]["nsteps"], 7)
        need = scn["time"]["pre"] + nst + 1
        while sum(scn["forcing"]["gaps"]) < need:
            scn["forcing"]["gaps"].append(3)
        scn["forcing"]["partition"] = [len(scn["forcing"]["gaps"]) + 1]
        rows = scn["release"]["rows"][:1]
        base = dict(rows[0], step=0, mult=1)
        nyoung = draw(st.integers(1, 2))
        rows = [dict(base, tag=k, fx=base["fx"] * (1 - 0.1 * k)) for k in range(2 + nyoung)]
        late = draw(st.integers(4, nst - 1))
        rows.append(dict(base, tag=len(rows), step=late))
        scn["release"].update(rows=rows, continuous=False, freq=0)
        scn["ibm"].update(kills=[[draw(st.integers(0, 1)), 2 + k] for k in range(nyoung)], deactivate=[], lifetime=0)
        scn["output"].update(period=1, numrec=2)
        scn["warm_point"] = 1
        scn["pvars"] = draw(st.sampled_from([[], [], ["X0"]]))
        scn["forcing"]["vel"].update(kind="const", u=0.02, v=0.0)   # nobody leaves the grid
    else:
        if draw(st.booleans()):
            scn["ibm"]["lifetime"] = draw(st.sampled_from([1, 2, 2, 3]))
        if draw(st.booleans()) and not scn["release"]["continuous"]:
            scn["release"]["continuous"] = True
            scn["release"]["freq"] = draw(st.integers(1, 3))
    return scn


def shard(part, n, seed, known):
    stt = core.Stats()
    if part == "records":
        core.drive("records", cases(), oracle, n, seed, stt, known)
    elif part == "warm":
        core.drive("warm", warm_cases(), warm_oracle, n, seed, stt, known)
    elif part == "output_warm":
        core.drive("output_warm", pid_warm_cases(), pid_law_warm_oracle, n, seed, stt, known)
    else:
        core.drive("output", sim.scenario(layouts=("sparse",)), pid_law_oracle, n, seed, stt, known)
    return stt


def run_pid_laws(ctx):
    jobs = [("output", k, core.subseed(ctx.seed, "pidlaw", i), frozenset())
            for i, k in enumerate(core.split(ctx.n(320, 6000), 10))]
    jobs += [("output_warm", k, core.subseed(ctx.seed, "pidlaww", i), frozenset())
             for i, k in enumerate(core.split(ctx.n(480, 6000), 6))]
    stats = core.Stats()
    for s in core.pmap(shard, jobs):
        stats.merge(s)
    return stats


def run(ctx):
    jobs = [("records", k, core.subseed(ctx.seed, "rec", i), ctx.known_sigs)
            for i, k in enumerate(core.split(ctx.n(640, 15000), 12))]
    jobs += [("warm", k, core.subseed(ctx.seed, "warm", i), ctx.known_sigs)
             for i, k in enumerate(core.split(ctx.n(200, 5000), 4))]
    stats = core.Stats()
    for s in core.pmap(shard, jobs):
        stats.merge(s)
    return stats, dict(
        rule=("generated end-to-end scenarios (grid, multi-file forcing, release table incl. continuous, scripted "
              "IBM kills/deactivation/lifetime, out-of-grid flow, particle variables incl. time-typed, sparse/dense, "
              "reference time before/at/after start, f4/f8, numrec); every record compared with the state snapshot "
              "taken by a recording output plug-in at write time; non-trivial = some record has a different "
              "particle set than its predecessor; part 'warm': the same comparison for a run warm-started from a "
              "completed file of a split run (restart point drawn), optionally with a packed (scale_factor / "
              "add_offset) state variable"),
        assumptions=["state snapshot taken in Output.write before delegating is 'the model state at that time'",
                     "f4 encodings compared at float32 precision", "affine lon/lat grid (bilinear is exact)"],
    )


def replay(part, case):
    return {"records": oracle, "warm": warm_oracle, "output_warm": pid_law_warm_oracle}.get(part, pid_law_oracle)(case)
