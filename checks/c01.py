"""C01 - advection integrates the velocity field with the scheme's order of accuracy."""

from __future__ import annotations

import math

import numpy as np
from hypothesis import strategies as st

from vlib import core

PID = "C01"
LEVEL = "exploration"
ORDER = {"EF": 1, "RK2": 2, "RK4": 4}


# ---------------------------------------------------------------------------
# analytic fields (m/s as functions of grid coordinates and time in seconds)
# ---------------------------------------------------------------------------


def make_field(spec, amp):
    """Return f(x, y, t) -> (u, v) in m/s."""
    kind = spec["kind"]
    tm = spec.get("tmod")
    tl = spec.get("tlin", 0.0)

    def tfac(t):
        f = 1.0
        if tm:
            f = 1.0 + tm[0] * math.sin(tm[1] * t + tm[2])
        return f

    if kind == "const":
        def f(x, y, t):
            return amp * spec["u"] * tfac(t) + amp * tl * t + 0 * x, amp * spec["v"] * tfac(t) + 0 * y
    elif kind == "linear":
        A = spec["A"]
        b = spec["b"]

        def f(x, y, t):
            xx, yy = x - 250.0, y - 250.0
            u = amp * (A[0] * xx + A[1] * yy + b[0])
            v = amp * (A[2] * xx + A[3] * yy + b[1])
            return u * tfac(t) + amp * tl * t, v * tfac(t)
    else:
        mu, mv = spec["mu"], spec["mv"]

        def f(x, y, t):
            u = 0 * x
            v = 0 * y
            for a, kx, ky, p, q in mu:
                u = u + a * np.sin(kx * x + p) * np.cos(ky * y + q)
            for a, kx, ky, p, q in mv:
                v = v + a * np.cos(kx * x + p) * np.sin(ky * y + q)
            return amp * u * tfac(t) + amp * tl * t, amp * v * tfac(t)
    return f


mode = st.tuples(st.floats(0.2, 1.0), st.floats(0.02, 0.6), st.floats(0.02, 0.6), st.floats(0, 6.28), st.floats(0, 6.28))


@st.composite
def field_specs(draw, smooth=False):
    kind = draw(st.sampled_from(["const", "linear", "modes", "modes", "modes"]))
    spec = {"kind": kind}
    if kind == "const":
        spec.update(u=draw(st.floats(-1, 1)), v=draw(st.floats(-1, 1)))
    elif kind == "linear":
        spec.update(A=[draw(st.floats(-0.02, 0.02)) for _ in range(4)], b=[draw(st.floats(-1, 1)) for _ in range(2)])
    else:
        kmax = 0.25 if smooth else 0.6
        m = st.tuples(st.floats(0.2, 1.0), st.floats(0.02, kmax), st.floats(0.02, kmax), st.floats(0, 6.28), st.floats(0, 6.28))
        spec.update(mu=draw(st.lists(m, min_size=1, max_size=3)), mv=draw(st.lists(m, min_size=1, max_size=3)))
    tk = draw(st.sampled_from(["steady", "mod", "lin", "mod"]))
    if tk == "mod":
        spec["tmod"] = [draw(st.floats(0.1, 0.8)), draw(st.floats(0.0, 1.0)), draw(st.floats(0, 6.28))]  # w scaled later
    elif tk == "lin":
        spec["tlin"] = draw(st.floats(-1.0, 1.0))  # scaled later
    return spec


def finalize(spec, T):
    """Scale the time dependence to the total integration time T (seconds)."""
    spec = dict(spec)
    if spec.get("tmod"):
        b, w, ph = spec["tmod"]
        spec["tmod"] = [b, w * 6.0 / T, ph]
    if spec.get("tlin"):
        spec["tlin"] = spec["tlin"] / T
    return spec


# ---------------------------------------------------------------------------
# plug-in grid / forcing / timer for the real Tracker
# ---------------------------------------------------------------------------


class AGrid:
    def __init__(self, dx, dy):
        self.dx, self.dy = dx, dy
        self.xmin, self.xmax, self.ymin, self.ymax = 0.0, 499.0, 0.0, 499.0

    def metric(self, X, Y):
        return self.dx * np.ones_like(X), self.dy * np.ones_like(Y)

    def depth(self, X, Y):
        return 100.0 * np.ones_like(X)

    def ingrid(self, X, Y):
        return np.ones(len(X), bool)

    def atsea(self, X, Y):
        return np.ones(len(X), bool)


class AForce:
    def __init__(self, f, dt):
        self.f, self.dt, self.t = f, dt, 0.0
        self.calls = []
        self.variables = {}

    def velocity(self, X, Y, Z, fractional_step=0, method="bilinear"):
        self.calls.append(float(fractional_step))
        u, v = self.f(np.asarray(X, float), np.asarray(Y, float), self.t + fractional_step * self.dt)
        return np.array(u, float) + 0 * X, np.array(v, float) + 0 * Y


class ATimer:
    def __init__(self, dt):
        self.dt = np.timedelta64(int(dt), "s")


def make_tracker(scheme, f, dt, dx, dy, X, Y):
    from ladim.state import State
    from ladim.tracker import Tracker

    state = State()
    grid = AGrid(dx, dy)
    force = AForce(f, dt)
    modules = dict(state=state, grid=grid, time=ATimer(dt), forcing=force)
    tr = Tracker(modules=modules, advection=scheme)
    state.append(X=np.array(X, float), Y=np.array(Y, float), Z=5.0)
    return tr, state, force


# ---------------------------------------------------------------------------
# reference integrators
# ---------------------------------------------------------------------------


def ref_step(scheme, f, x, y, t, dt, dx, dy):
    cx, cy = dt / dx, dt / dy
    u1, v1 = f(x, y, t)
    if scheme == "EF":
        return x + u1 * cx, y + v1 * cy
    if scheme == "RK2mid":
        u2, v2 = f(x + 0.5 * u1 * cx, y + 0.5 * v1 * cy, t + 0.5 * dt)
        return x + u2 * cx, y + v2 * cy
    if scheme == "RK2heun":
        u2, v2 = f(x + u1 * cx, y + v1 * cy, t + dt)
        return x + 0.5 * (u1 + u2) * cx, y + 0.5 * (v1 + v2) * cy
    u2, v2 = f(x + 0.5 * u1 * cx, y + 0.5 * v1 * cy, t + 0.5 * dt)
    u3, v3 = f(x + 0.5 * u2 * cx, y + 0.5 * v2 * cy, t + 0.5 * dt)
    u4, v4 = f(x + u3 * cx, y + v3 * cy, t + dt)
    return x + (u1 + 2 * u2 + 2 * u3 + u4) / 6 * cx, y + (v1 + 2 * v2 + 2 * v3 + v4) / 6 * cy


def ref_integrate(f, x, y, T, nsteps, dx, dy):
    dt = T / nsteps
    t = 0.0
    for _ in range(nsteps):
        x, y = ref_step("RK4", f, x, y, t, dt, dx, dy)
        t += dt
    return x, y


# ---------------------------------------------------------------------------
# O1: one step, tight
# ---------------------------------------------------------------------------


@st.composite
def step_cases(draw):
    return dict(spec=draw(field_specs()), scheme=draw(st.sampled_from(["EF", "RK2", "RK4"])),
                dx=draw(st.floats(10, 2e4)), ratio=draw(st.sampled_from([1.0, 0.5, 2.0, 1.3])),
                dt=draw(st.sampled_from([1, 7, 60, 600, 3600, 86400])), disp=draw(st.floats(1e-3, 0.95)),
                npart=draw(st.sampled_from([1, 5, 40])), seed=draw(st.integers(0, 10**6)),
                step_no=draw(st.integers(0, 5)))


def step_oracle(case) -> core.CaseResult:
    res = core.CaseResult()
    dx = case["dx"]
    dy = dx * case["ratio"]
    dt = case["dt"]
    amp = case["disp"] * min(dx, dy) / dt / 3.0  # |u| <= ~3*amp -> per-step displacement < 1 cell
    spec = finalize(case["spec"], 6 * dt)
    f = make_field(spec, amp)
    rng = np.random.default_rng(case["seed"])
    X = rng.uniform(10, 489, case["npart"])
    Y = rng.uniform(10, 489, case["npart"])
    scheme = case["scheme"]
    res.cls(scheme)
    res.cls(spec["kind"] + ("_t" if (spec.get("tmod") or spec.get("tlin")) else ""))
    try:
        tr, state, force = make_tracker(scheme, f, dt, dx, dy, X, Y)
        force.t = case["step_no"] * dt
        tr.update()
    except BaseException as e:  # noqa: BLE001
        import traceback

        res.fail("tracker_raises", f"{e!r}\n{traceback.format_exc()[-500:]}")
        return res
    gx, gy = np.array(state.X), np.array(state.Y)
    t0 = case["step_no"] * dt
    preds = {s: ref_step(s, f, X, Y, t0, dt, dx, dy) for s in ("EF", "RK2mid", "RK2heun", "RK4")}
    tol = 1e-9

    def dist(a):
        return float(max(np.max(np.abs(gx - a[0])), np.max(np.abs(gy - a[1]))))

    if scheme == "EF":
        err = dist(preds["EF"])
    elif scheme == "RK2":
        err = min(dist(preds["RK2mid"]), dist(preds["RK2heun"]))
    else:
        err = dist(preds["RK4"])
    res.check(err <= tol, f"one_step_{scheme}",
              f"{scheme}: new position differs from the scheme's prescription by {err:.3g} cells "
              f"(distance to EF {dist(preds['EF']):.3g}, RK2mid {dist(preds['RK2mid']):.3g}, RK4 {dist(preds['RK4']):.3g}); "
              f"fractional steps requested {force.calls}")
    # schemes must be distinguishable for the case to count
    def sep(a, b):
        return float(max(np.max(np.abs(preds[a][0] - preds[b][0])), np.max(np.abs(preds[a][1] - preds[b][1]))))
    res.nontrivial = min(sep("EF", "RK2mid"), sep("EF", "RK4"), sep("RK2mid", "RK4")) > 1e-7
    # fractional times of the scheme
    want = {"EF": [0.0], "RK2": None, "RK4": [0.0, 0.5, 0.5, 1.0]}[scheme]
    if want is not None:
        res.check(sorted(force.calls) == sorted(want), f"fractional_times_{scheme}",
                  f"{scheme} asked the forcing at fractional steps {force.calls}, expected {want}")
    else:
        res.check(sorted(force.calls) in ([0.0, 0.5], [0.0, 1.0]), "fractional_times_RK2",
                  f"RK2 asked the forcing at fractional steps {force.calls}")
    return res


# ---------------------------------------------------------------------------
# O2: observed order of convergence through Tracker.update
# ---------------------------------------------------------------------------


@st.composite
def order_cases(draw):
    return dict(spec=draw(field_specs(smooth=True)), scheme=draw(st.sampled_from(["EF", "RK2", "RK4"])),
                dx=draw(st.floats(10, 2e4)), ratio=draw(st.sampled_from([1.0, 0.5, 2.0])),
                dt4=draw(st.sampled_from([1, 15, 150, 900])), disp=draw(st.floats(0.2, 0.9)),
                n=draw(st.sampled_from([4, 6, 8])), seed=draw(st.integers(0, 10**6)))


def run_tracker(scheme, f, T, nsteps, dx, dy, X, Y):
    dt = T // nsteps
    tr, state, force = make_tracker(scheme, f, dt, dx, dy, X, Y)
    for k in range(nsteps):
        force.t = k * dt
        tr.update()
    return np.array(state.X), np.array(state.Y)


def order_oracle(case) -> core.CaseResult:
    res = core.CaseResult()
    scheme = case["scheme"]
    k = ORDER[scheme]
    n = case["n"]
    dt = 4 * case["dt4"]
    T = n * dt
    dx = case["dx"]
    dy = dx * case["ratio"]
    amp = case["disp"] * min(dx, dy) / dt / 3.0
    spec = finalize(case["spec"], T)
    f = make_field(spec, amp)
    rng = np.random.default_rng(case["seed"])
    X = rng.uniform(30, 469, 6)
    Y = rng.uniform(30, 469, 6)
    res.cls(scheme)
    try:
        sols = [run_tracker(scheme, f, T, m, dx, dy, X, Y) for m in (n, 2 * n, 4 * n)]
    except BaseException as e:  # noqa: BLE001
        res.fail("tracker_raises", repr(e))
        return res
    fx, fy = ref_integrate(f, X.copy(), Y.copy(), float(T), 64 * 4 * n, dx, dy)
    errs = [float(np.max(np.hypot(s[0] - fx, s[1] - fy))) for s in sols]
    floor = 1e-10
    orders = []
    for a, b in ((0, 1), (1, 2)):
        if errs[b] > floor and errs[a] > floor:
            orders.append(math.log2(errs[a] / errs[b]))
    if spec["kind"] == "const" and not (spec.get("tmod") or spec.get("tlin")):
        res.cls("exact_for_all")
        res.check(errs[0] < 1e-7, "const_field_exact", f"constant field not integrated exactly: {errs}")
        return res
    if not orders:
        res.cls("below_noise_floor")
        return res
    # The order is a statement about the limit dt -> 0.  It is judged only where the scheme itself - an
    # independent implementation stepping with the same n, 2n, 4n steps - already shows its order; otherwise
    # (e.g. a time modulation of about one period over T, where coarse Euler sums cancel by accident) the case
    # is outside the asymptotic regime and says nothing.
    ref_orders = []
    for name in {"EF": ("EF",), "RK2": ("RK2mid", "RK2heun"), "RK4": ("RK4",)}[scheme]:
        rerrs = []
        for m in (n, 2 * n, 4 * n):
            x, y, h = X.copy(), Y.copy(), T / m
            for j in range(m):
                x, y = ref_step(name, f, x, y, j * h, h, dx, dy)
            rerrs.append(float(np.max(np.hypot(x - fx, y - fy))))
        for a, b in ((0, 1), (1, 2)):
            if rerrs[b] > floor and rerrs[a] > floor:
                ref_orders.append(math.log2(rerrs[a] / rerrs[b]))
    if not ref_orders or max(ref_orders) < k - 0.25:
        res.cls("not_asymptotic_at_these_steps")
        return res
    res.nontrivial = True
    p = max(orders)
    res.check(p >= k - 0.5, f"order_{scheme}",
              f"{scheme}: observed order {p:.2f} (errors {errs} for {n}, {2 * n}, {4 * n} steps), expected about {k}")
    return res


# ---------------------------------------------------------------------------
# O3: analytic helpers get_velocity1/2/4
# ---------------------------------------------------------------------------


@st.composite
def helper_cases(draw):
    return dict(spec=draw(field_specs(smooth=True)), which=draw(st.sampled_from([1, 2, 2, 4])),
                s=draw(st.one_of(st.sampled_from([0.5, 2 / 3, 1.0]), st.floats(0.3, 1.0))),
                disp=draw(st.floats(0.2, 0.9)), n=draw(st.sampled_from([4, 8])), seed=draw(st.integers(0, 10**6)))


def helper_oracle(case) -> core.CaseResult:
    from ladim.analytical import get_velocity1, get_velocity2, get_velocity4
    from ladim.state import State

    res = core.CaseResult()
    spec = dict(case["spec"])
    spec.pop("tmod", None)
    spec.pop("tlin", None)  # helpers sample a steady field
    which = case["which"]
    k = {1: 1, 2: 2, 4: 4}[which]
    res.cls(f"get_velocity{which}")
    T = 100.0
    n = case["n"]
    amp = case["disp"] / (T / n) / 3.0  # cells per second
    f = make_field(spec, amp)

    def sample(x, y):
        return f(np.asarray(x, float), np.asarray(y, float), 0.0)

    rng = np.random.default_rng(case["seed"])
    X0 = rng.uniform(30, 469, 5)
    Y0 = rng.uniform(30, 469, 5)

    def integrate(m):
        st_ = State()
        st_.append(X=X0.copy(), Y=Y0.copy(), Z=1.0)
        dt = T / m
        for _ in range(m):
            if which == 1:
                U, V = get_velocity1(st_, sample, dt)
            elif which == 2:
                U, V = get_velocity2(st_, sample, dt, case["s"])
            else:
                U, V = get_velocity4(st_, sample, dt)
            st_["X"] = st_.X + dt * U
            st_["Y"] = st_.Y + dt * V
        return np.array(st_.X), np.array(st_.Y)

    # tableau identity for one evaluation
    st1 = State()
    st1.append(X=X0.copy(), Y=Y0.copy(), Z=1.0)
    dt = T / n
    u0, v0 = sample(X0, Y0)
    if which == 2:
        s = case["s"]
        m_ = 1 / (2 * s)
        u1, v1 = sample(X0 + s * dt * u0, Y0 + s * dt * v0)
        wu, wv = (1 - m_) * u0 + m_ * u1, (1 - m_) * v0 + m_ * v1
        gu, gv = get_velocity2(st1, sample, dt, s)
    elif which == 4:
        a1, b1 = sample(X0 + 0.5 * dt * u0, Y0 + 0.5 * dt * v0)
        a2, b2 = sample(X0 + 0.5 * dt * a1, Y0 + 0.5 * dt * b1)
        a3, b3 = sample(X0 + dt * a2, Y0 + dt * b2)
        wu, wv = (u0 + 2 * a1 + 2 * a2 + a3) / 6, (v0 + 2 * b1 + 2 * b2 + b3) / 6
        gu, gv = get_velocity4(st1, sample, dt)
    else:
        wu, wv = u0, v0
        gu, gv = get_velocity1(st1, sample, dt)
    scale = max(1e-30, float(np.max(np.abs(wu))), float(np.max(np.abs(wv))))
    res.check(np.max(np.abs(gu - wu)) <= 1e-9 * scale and np.max(np.abs(gv - wv)) <= 1e-9 * scale,
              f"helper_tableau_{which}", f"get_velocity{which} differs from the Runge-Kutta tableau")
    if spec["kind"] == "const":
        res.cls("exact_for_all")
        return res
    sols = [integrate(m) for m in (n, 2 * n, 4 * n)]
    fx, fy = ref_integrate(lambda x, y, t: sample(x, y), X0.copy(), Y0.copy(), T, 64 * 4 * n, 1.0, 1.0)
    errs = [float(np.max(np.hypot(sx - fx, sy - fy))) for sx, sy in sols]
    orders = [math.log2(errs[a] / errs[b]) for a, b in ((0, 1), (1, 2)) if errs[a] > 1e-10 and errs[b] > 1e-10]
    if not orders:
        res.cls("below_noise_floor")
        return res

    def ref_vel(x, y, h):  # the tableau, written out independently of the library
        p0, q0 = sample(x, y)
        if which == 1:
            return p0, q0
        if which == 2:
            sv = case["s"]
            p1, q1 = sample(x + sv * h * p0, y + sv * h * q0)
            mm = 1 / (2 * sv)
            return (1 - mm) * p0 + mm * p1, (1 - mm) * q0 + mm * q1
        p1, q1 = sample(x + 0.5 * h * p0, y + 0.5 * h * q0)
        p2, q2 = sample(x + 0.5 * h * p1, y + 0.5 * h * q1)
        p3, q3 = sample(x + h * p2, y + h * q2)
        return (p0 + 2 * p1 + 2 * p2 + p3) / 6, (q0 + 2 * q1 + 2 * q2 + q3) / 6

    rerrs = []
    for m in (n, 2 * n, 4 * n):
        x, y, h = X0.copy(), Y0.copy(), T / m
        for _ in range(m):
            pu, pv = ref_vel(x, y, h)
            x, y = x + h * pu, y + h * pv
        rerrs.append(float(np.max(np.hypot(x - fx, y - fy))))
    ref_orders = [math.log2(rerrs[a] / rerrs[b]) for a, b in ((0, 1), (1, 2)) if rerrs[a] > 1e-10 and rerrs[b] > 1e-10]
    if not ref_orders or max(ref_orders) < k - 0.25:
        res.cls("not_asymptotic_at_these_steps")  # judged only where the tableau itself shows its order
        return res
    res.nontrivial = True
    res.check(max(orders) >= k - 0.5, f"helper_order_{which}",
              f"get_velocity{which} (s={case['s']}): observed order {max(orders):.2f}, errors {errs}")
    return res



# ---------------------------------------------------------------------------
# O4: the whole chain - Tracker + stock ROMS Forcing (space and time interpolation, fractional steps) + stock
# ROMS Grid (metric by cell, subgrid offsets).  Fields linear in x, y and t are reproduced exactly by the file
# interpolation, so the scheme's prescription can be computed from the analytic field.
# ---------------------------------------------------------------------------


@st.composite
def stock_cases(draw):
    jm = draw(st.integers(10, 16))
    im = draw(st.integers(10, 16))
    sub = None
    if draw(st.booleans()):
        i0 = draw(st.integers(1, im - 8))
        i1 = draw(st.integers(i0 + 7, im - 1))
        j0 = draw(st.integers(1, jm - 8))
        j1 = draw(st.integers(j0 + 7, jm - 1))
        sub = [i0, i1, j0, j1]
    gap = draw(st.integers(1, 4))
    # further frames after the first interval (irregular spacing) and a run that starts later than the first
    # frame: first tracked step = start offset + steps already run
    more = draw(st.lists(st.integers(1, 4), max_size=3))
    total = gap + sum(more)
    begin = draw(st.integers(0, total - 1))
    return dict(more=more, begin=begin, jm=jm, im=im, sub=sub, scheme=draw(st.sampled_from(["EF", "RK2", "RK4"])),
                metric=draw(st.sampled_from(["uniform", "varying", "varying"])), dx0=draw(st.floats(50, 5000)),
                dt=draw(st.sampled_from([60, 600, 3600])), disp=draw(st.floats(0.05, 0.9)), gap=gap,
                s=draw(st.integers(0, 3)) % gap, reverse=draw(st.booleans()), npart=draw(st.sampled_from([4, 25])),
                seed=draw(st.integers(0, 10**6)), steady=draw(st.sampled_from([False, False, True])),
                # current that varies with depth (factor per s-level, particles at different depths) and a share of
                # particles that are switched off (they must stay; the others must not notice them)
                shear=draw(st.booleans()), inactive=draw(st.sampled_from([0.0, 0.0, 0.25])),
                # the frames may be spread over several files, and a scalar field may be read along with the currents
                split=draw(st.sampled_from([0, 0, 1, 2])), scalar=draw(st.booleans()))


def stock_oracle(case) -> core.CaseResult:
    from ladim.model import init_module

    from vlib import e2e, roms, scen

    e2e.quiet()
    res = core.CaseResult()
    jm, im, dt, gap, s0 = case["jm"], case["im"], case["dt"], case["gap"], case["s"]
    rng = np.random.default_rng(case["seed"])
    jj, ii = np.mgrid[0:jm, 0:im].astype(float)
    dxa = np.full((jm, im), case["dx0"])
    if case["metric"] == "varying":
        dxa = case["dx0"] * (1 + 0.35 * np.sin(0.9 * ii + rng.uniform(0, 6)) * np.cos(0.7 * jj + rng.uniform(0, 6))
                             + 0.2 * (ii - jj) / (im + jm))
    NL = 3
    G = roms.make_grid(jm, im, N=NL, h="flat", hval=50.0, mask="none", dx=case["dx0"], seed=case["seed"],
                       levels="random")
    G["pm"] = 1.0 / dxa
    G["pn"] = 1.0 / dxa
    glev = rng.uniform(0.4, 1.0, NL) if case.get("shear") else np.ones(NL)
    # analytic field (m/s): linear in x and y, times a factor that is piecewise linear in time with its kinks at
    # the frames (so the file's linear interpolation between frames reproduces it exactly, while the increment
    # per step differs from one frame interval to the next); |u|, |v| * dt / min dx <= disp
    a = rng.uniform(-1, 1, (2, 4))
    L = float(max(jm, im))
    cum = np.concatenate([[0], np.cumsum([gap] + list(case.get("more", [])))]).astype(int)  # frame steps
    begin = min(int(case.get("begin", 0)), int(cum[-1]) - 1 - s0) if case.get("more") is not None else 0
    begin = max(begin, 0)
    Tspan = int(cum[-1]) * dt
    tf = np.ones(len(cum)) if case["steady"] else rng.uniform(0.5, 1.5, len(cum))
    amp = case["disp"] * float(dxa.min()) / dt / 4.5

    def f(x, y, t):
        tl = np.interp(t, cum * float(dt), tf)
        return (amp * (a[0, 0] + a[0, 1] * x / L + a[0, 2] * y / L) * tl,
                amp * (a[1, 0] + a[1, 1] * x / L + a[1, 2] * y / L) * tl)

    sgn = -1 if case["reverse"] else 1
    T = scen.T0 + scen.S(86400)
    ftimes = [T + scen.S(sgn * int(c_) * dt) for c_ in cum]  # frames at these simulation steps
    nfr = len(cum)
    U = np.empty((nfr, NL, jm, im - 1))
    V = np.empty((nfr, NL, jm - 1, im))
    ju, iu = np.mgrid[0:jm, 0:im - 1].astype(float)
    jv, iv = np.mgrid[0:jm - 1, 0:im].astype(float)
    for k, tk in enumerate([float(c_ * dt) for c_ in cum]):
        # the file holds the physical field; a reversed run feels its negative
        U[k, :] = sgn * f(iu + 0.5, ju, tk)[0][None] * glev[:, None, None]
        V[k, :] = sgn * f(iv, jv + 0.5, tk)[1][None] * glev[:, None, None]
    res.cls(case["scheme"])
    res.cls("metric_" + case["metric"])
    res.cls("reversed" if case["reverse"] else "forward")
    res.cls("subgrid" if case["sub"] else "full_grid")
    i0, i1, j0, j1 = case["sub"] or [1, im - 1, 1, jm - 1]
    n = case["npart"]
    X = rng.uniform(i0 + 1.6, i1 - 2.6, n)
    Y = rng.uniform(j0 + 1.6, j1 - 2.6, n)
    Z = rng.uniform(0.0, 50.0, n) if case.get("shear") else np.full(n, 5.0)
    off = rng.uniform(size=n) < case.get("inactive", 0.0)
    # the factor each particle's depth gives (flat bottom: the same level depths everywhere); Z does not change
    zcol = roms.grid_zr(G)[:, 0, 0]
    gpart = np.empty(n)
    for p_ in range(n):
        kk, aa = roms.vert_weights(zcol, Z[p_])
        gpart[p_] = aa * glev[max(kk - 1, 0)] + (1 - aa) * glev[kk]
    with e2e.workdir() as d:
        order = np.argsort(np.array(ftimes))
        nfr_ = len(order)
        # partition of the (time-ordered) frames into files: one file, one frame per file, or two files
        if case.get("split") == 1:
            part = [1] * nfr_
        elif case.get("split") == 2 and nfr_ >= 2:
            part = [nfr_ // 2, nfr_ - nfr_ // 2]
        else:
            part = [nfr_]
        extra = {"temp": rng.uniform(0, 20, (nfr_, NL, jm, im))} if case.get("scalar") else None
        fname, ffiles = scen.write_forcing(d, G, [ftimes[i] for i in order], U[order], V[order], partition=part,
                                           extra=extra, stem="f")
        if len(part) > 1:
            res.cls("frames_in_several_files")
        if extra:
            res.cls("scalar_field_read_along")
        modules = {}
        try:
            sconf = {"instance_variables": {"temp": "float"}, "default_values": {"temp": 0.0}} if extra else {}
            modules["state"] = init_module("state", sconf, modules)
            tconf = {"start": e2e.iso(T + scen.S(sgn * begin * dt)), "stop": e2e.iso(ftimes[-1]), "dt": dt}
            if case["reverse"]:
                tconf["time_reversal"] = True
            modules["time"] = init_module("time", tconf, modules)
            gconf = {"filename": str(ffiles[0])}
            if case["sub"]:
                gconf["subgrid"] = list(case["sub"])
            modules["grid"] = init_module("grid", gconf, modules)
            fconf = {"filename": fname}
            if extra:
                fconf["extra_forcing"] = ["temp"]
            modules["forcing"] = init_module("forcing", fconf, modules)
            modules["tracker"] = init_module("tracker", {"advection": case["scheme"]}, modules)
            state, timer, force, tr = modules["state"], modules["time"], modules["forcing"], modules["tracker"]
            state.append(X=X.copy(), Y=Y.copy(), Z=Z.copy())
            if off.any():
                act = np.ones(n, bool)
                act[off] = False
                state["active"] = act
            for _ in range(s0 + 1):  # Model.update order: clock, (release), forcing, (output), tracker
                timer.update()
                force.update()
            tr.update()
            force.close()
        except BaseException as e:  # noqa: BLE001
            import traceback

            res.fail("stock_chain_raises", f"{e!r}\n{traceback.format_exc()[-600:]}")
            return res
    gx, gy = np.array(state.X), np.array(state.Y)
    dxp = dxa[np.round(Y).astype(int), np.round(X).astype(int)]
    t0 = (begin + s0) * dt
    if begin:
        res.cls("run_starts_after_the_first_frame")
    if len(cum) > 2:
        res.cls("several_frame_intervals")

    def fp(x, y, t):  # what each particle feels at its own depth
        u_, v_ = f(x, y, t)
        return u_ * gpart, v_ * gpart

    preds = {k: ref_step(k, fp, X, Y, t0, dt, dxp, dxp) for k in ("EF", "RK2mid", "RK2heun", "RK4")}
    on = ~off
    if off.any():
        res.cls("with_inactive_particles")
        res.check(bool(np.all(gx[off] == X[off]) and np.all(gy[off] == Y[off])), "stock_inactive_moved",
                  "a particle that is switched off was moved horizontally")
    if case.get("shear"):
        res.cls("depth_dependent_current")
    if not on.any():
        return res

    def dist(p):
        return float(max(np.max(np.abs(gx[on] - p[0][on])), np.max(np.abs(gy[on] - p[1][on]))))

    sch = case["scheme"]
    err = dist(preds["EF"]) if sch == "EF" else (dist(preds["RK4"]) if sch == "RK4" else
                                                 min(dist(preds["RK2mid"]), dist(preds["RK2heun"])))
    res.check(bool(np.all(state.alive)), "stock_killed", "a particle well inside the valid region was killed")
    res.check(err <= 1e-9, f"stock_one_step_{sch}",
              f"{sch} through the stock forcing and grid: new position differs from the scheme's prescription by "
              f"{err:.3g} cells (to EF {dist(preds['EF']):.3g}, RK2mid {dist(preds['RK2mid']):.3g}, RK4 {dist(preds['RK4']):.3g}); "
              f"step {s0} of a {gap}-step frame interval, metric {case['metric']}, subgrid {case['sub']}")

    def sep(p, q):
        return float(max(np.max(np.abs(preds[p][0] - preds[q][0])[on]), np.max(np.abs(preds[p][1] - preds[q][1])[on])))
    res.nontrivial = min(sep("EF", "RK2mid"), sep("EF", "RK4")) > 1e-7
    return res


def shard(part, n, seed, known):
    stt = core.Stats()
    strat, orc = {"step": (step_cases(), step_oracle), "order": (order_cases(), order_oracle),
                  "helpers": (helper_cases(), helper_oracle), "stock": (stock_cases(), stock_oracle)}[part]
    core.drive(part, strat, orc, n, seed, stt, known)
    return stt


def run(ctx):
    jobs = []
    for part, nq, nt, k in (("step", 2400, 60000, 6), ("order", 480, 9000, 4), ("helpers", 300, 6000, 2),
                            ("stock", 1200, 30000, 4)):
        for i, m in enumerate(core.split(ctx.n(nq, nt), k)):
            jobs.append((part, m, core.subseed(ctx.seed, part, i), ctx.known_sigs))
    stats = core.Stats()
    for s in core.pmap(shard, jobs):
        stats.merge(s)
    return stats, dict(
        rule=("step: generated analytic fields (constant, linear, 1-3 sine modes, optionally time-modulated or with a "
              "term linear in t), metrics dx != dy over 3 decades, dt 1..86400 s, displacement 1e-3..0.95 cell, scheme; "
              "Tracker.update vs independent EF / midpoint or Heun RK2 / classical RK4 (tol 1e-9 cell); non-trivial = "
              "the three schemes' predictions differ pairwise by > 1e-7 cell. order: observed order of convergence "
              "through Tracker.update against a 64x finer RK4 reference, one-sided p >= k - 0.5; non-trivial = errors "
              "above the 1e-10 noise floor. helpers: same for get_velocity1/2/4. stock: the same one-step identity "
              "through the stock ROMS Forcing and Grid built from generated files (fields linear in x, y and t between "
              "two frames 1-4 steps apart, metric uniform or varying by cell, legal subgrids, forward and reversed)"),
        assumptions=["uniform metric per case (dx != dy) through a plug-in grid; no land, no rim",
                     "RK2 may be midpoint or Heun (the statement does not choose)",
                     "order accepted if either refinement (n->2n or 2n->4n) shows it; super-convergence is not a violation"],
    )


def replay(part, case):
    return {"step": step_oracle, "order": order_oracle, "helpers": helper_oracle, "stock": stock_oracle}[part](case)
