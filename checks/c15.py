"""C15 - depth stays within the water column."""

from __future__ import annotations

import numpy as np
from hypothesis import strategies as st

from vlib import core

PID = "C15"
LEVEL = "exploration"


class HGrid:
    def __init__(self, H, dx):
        self.H = H
        self.dx = dx
        jm, im = H.shape
        self.xmin, self.xmax, self.ymin, self.ymax = 0.0, im - 1.0, 0.0, jm - 1.0

    def metric(self, X, Y):
        return self.dx * np.ones_like(X), self.dx * np.ones_like(Y)

    def depth(self, X, Y):
        I = np.floor(X + 0.5).astype(int)
        J = np.floor(Y + 0.5).astype(int)
        return self.H[J, I]

    def ingrid(self, X, Y):
        return (self.xmin + 1 < X) & (X < self.xmax - 1) & (self.ymin + 1 < Y) & (Y < self.ymax - 1)

    def atsea(self, X, Y):
        return np.ones(len(X), bool)


class WForce:
    def __init__(self, U, V, W):
        self.U, self.V = U, V
        self.variables = {"w": W}

    def velocity(self, X, Y, Z, fractional_step=0, method="bilinear"):
        return self.U.copy(), self.V.copy()


@st.composite
def cases(draw):
    return dict(jm=draw(st.integers(6, 14)), im=draw(st.integers(6, 14)), seed=draw(st.integers(0, 10**6)),
                hmin=draw(st.sampled_from([1.0, 5.0, 60.0, 800.0])), ratio=draw(st.sampled_from([1.0, 3.0, 50.0, 5000.0])),
                mode=draw(st.sampled_from(["diff", "adv", "both", "both", "diff", "off"])), frac=draw(st.floats(0.05, 0.98)),
                share=draw(st.floats(0.05, 0.95)), dt=draw(st.sampled_from([1, 60, 600, 3600, 86400])),
                scheme=draw(st.sampled_from(["", "EF", "RK2", "RK4"])), n=draw(st.sampled_from([12, 60])),
                hspeed=draw(st.sampled_from([0.0, 0.4, 0.9])), steps=draw(st.integers(1, 4)),
                # between two steps some particles die and are removed while as many new ones are released
                # (the number of particles stays the same, the survivors move up in the arrays)
                swap=draw(st.sampled_from([0, 0, 2, 5])),
                # directed flavour: a crowd resting on a flat bottom, diffusion and advection both on, nearly the whole
                # displacement budget given to the random part (an escape then needs only a 3.5-sigma excess)
                nearbottom=draw(st.sampled_from([False, False, False, False, False, True])))


@st.composite
def roms_cases(draw):
    """The same quantifier through the stock ROMS grid: bathymetry from a file, any legal subgrid."""
    case = draw(cases())
    jm = draw(st.integers(9, 16))
    im = draw(st.integers(9, 16))
    sub = None
    if draw(st.sampled_from([True, True, False])):
        i0 = draw(st.integers(1, im - 7))
        i1 = draw(st.integers(i0 + 6, im - 1))
        j0 = draw(st.integers(1, jm - 7))
        j1 = draw(st.integers(j0 + 6, jm - 1))
        sub = [i0, i1, j0, j1]
    case.update(jm=jm, im=im, sub=sub, hkind=draw(st.sampled_from(["noise", "eta_slope", "xi_slope"])))
    return case


def ref_depth(H, X, Y):
    """Depth of the particle's own cell from the full-grid bathymetry; both neighbours when exactly on an edge.

    Returns (lowest candidate, highest candidate) per particle."""
    from vlib import roms

    lo = np.empty(len(X))
    hi = np.empty(len(X))
    for k in range(len(X)):
        c = [H[j, i] for i in roms.cell_candidates(X[k]) for j in roms.cell_candidates(Y[k])]
        lo[k], hi[k] = min(c), max(c)
    return lo, hi


def oracle(case) -> core.CaseResult:
    from ladim.state import State
    from ladim.tracker import Tracker

    from vlib import e2e

    e2e.quiet()
    res = core.CaseResult()
    if case.get("nearbottom"):
        case = dict(case, mode="both", share=0.05, frac=0.98, ratio=1.0, n=60, hspeed=0.0)
        res.cls("crowd_on_a_flat_bottom")
    case = dict(case, vertdiff=case["mode"] in ("diff", "both"), vadv=case["mode"] in ("adv", "both"))
    rng = np.random.default_rng(case["seed"])
    jm, im = case["jm"], case["im"]
    hmin = case["hmin"]
    hmax = min(5000.0, hmin * case["ratio"])
    H = np.exp(rng.uniform(np.log(hmin), np.log(hmax), (jm, im))) if hmax > hmin else np.full((jm, im), hmin)
    H.flat[rng.integers(H.size)] = hmin
    dx = 200.0
    n = case["n"]
    dt = case["dt"]
    stock = "hkind" in case
    if stock:
        from ladim.ROMS import Grid

        from vlib import roms

        jj, ii = np.mgrid[0:jm, 0:im]
        if case["hkind"] == "eta_slope" and hmax > hmin:
            H = hmin + (hmax - hmin) * jj / (jm - 1.0)
        elif case["hkind"] == "xi_slope" and hmax > hmin:
            H = hmin + (hmax - hmin) * ii / (im - 1.0)
        G = roms.make_grid(jm, im, N=2, h=H, mask="none", dx=dx, seed=case["seed"])
        # the critical depth of the vertical coordinate has no say in where the sea bed is: any value, also one
        # larger than the shallowest depth, leaves the bottom of every cell where the file puts it
        G["hc"] = float(H.min()) * (0.0, 0.5, 2.0, 10.0)[case["seed"] % 4]
        with e2e.workdir() as d:
            roms.write_roms(d / "g.nc", G, [], np.zeros((0, 2, jm, im - 1)), np.zeros((0, 2, jm - 1, im)))
            gkw = {"filename": str(d / "g.nc")}
            if case["sub"]:
                gkw["subgrid"] = list(case["sub"])
            grid = Grid(**gkw)
        i0, i1, j0, j1 = case["sub"] or [1, im - 1, 1, jm - 1]
        # one cell inside the valid region (i0 + 0.5, i1 - 1.5) so that a step of < 1 cell stays in the grid
        xlo, xhi, ylo, yhi = i0 + 1.6, i1 - 2.6, j0 + 1.6, j1 - 2.6
        res.cls("stock_grid_subgrid_i0_ne_j0" if case["sub"] and i0 != j0 else "stock_grid")
    else:
        xlo, xhi, ylo, yhi = 1.6, im - 2.6, 1.6, jm - 2.6
        grid = HGrid(H, dx)
    X = rng.uniform(xlo, xhi, n)
    Y = rng.uniform(ylo, yhi, n)
    k3 = n // 4
    X[:k3] = np.floor(X[:k3]) + 0.5          # on cell boundaries
    X[:k3] = np.clip(X[:k3], xlo, xhi)
    h0 = ref_depth(H, X, Y)[0]
    Z = rng.uniform(0, 1, n) * h0
    Z[0::5] = 0.0
    Z[1::5] = h0[1::5]
    Z[2::5] = h0[2::5] * (1 - 1e-12)
    if case.get("nearbottom"):
        Z = h0.copy()
        Z[::2] *= 1 - 1e-12
    # vertical displacement budget: |w| dt + 6.5 sqrt(2 Dz dt) < f * min depth a particle can be over
    budget = case["frac"] * float(H.min())
    share = case["share"] if (case["vertdiff"] and case["vadv"]) else (1.0 if case["vadv"] else 0.0)
    wmax = share * budget / dt
    sig = (1 - share) * budget / 6.5
    Dz = sig * sig / (2 * dt) if case["vertdiff"] else 0.0
    W = rng.uniform(-1, 1, n) * wmax
    if n > 3:
        W[0] = -wmax  # upwards from the surface
        W[1] = wmax   # downwards from the bottom
    sp = case["hspeed"] * dx / dt
    ang = rng.uniform(0, 2 * np.pi, n)
    U, V = sp * np.cos(ang), sp * np.sin(ang)
    state = State()
    state.append(X=X, Y=Y, Z=Z)

    class Timer:
        pass

    Timer.dt = np.timedelta64(dt, "s")
    force = WForce(U, V, W)
    kw = dict(advection=case["scheme"])
    if case["vertdiff"] and Dz > 0:
        kw["vertdiff"] = Dz
    if case["vadv"]:
        kw["vertical_advection"] = True
    res.cls(("diff" if kw.get("vertdiff") else "") + ("+adv" if case["vadv"] else "") or "both_off")
    tr = Tracker(modules=dict(state=state, grid=grid, time=Timer(), forcing=force), **kw)
    tr.rng = np.random.default_rng(case["seed"] + 17)
    nontriv = False
    for step in range(case["steps"]):
        alive = np.array(state.alive)
        X0, Y0, Z0 = np.array(state.X), np.array(state.Y), np.array(state.Z)
        # bottom depth of the start cell from the generated bathymetry itself (not from the grid object under
        # test); for a particle exactly on a cell edge either neighbour is "its" cell: hlow <= h <= hstart
        hlow, hstart = ref_depth(H, X0, Y0)
        try:
            tr.update()
        except BaseException as e:  # noqa: BLE001
            import traceback

            res.fail("tracker_raises", f"{e!r}\n{traceback.format_exc()[-500:]}")
            return res
        Z1 = np.array(state.Z)
        if not (kw.get("vertdiff") or case["vadv"]):
            res.check(np.array_equal(Z1, Z0), "depth_changed_when_off",
                      f"vertical movement off but Z changed: {Z0[:4]} -> {Z1[:4]}")
            res.nontrivial = True
            continue
        # quantifier: start depths in [0, h]; a particle carried into a shallower cell by an earlier
        # step may start below that cell's bottom and is then not judged
        premise = (Z0 >= 0) & (Z0 <= hlow) & np.array(state.alive)
        bad = premise & ~(np.isfinite(Z1) & (Z1 >= 0) & (Z1 <= hstart))
        if bad.any():
            k = int(np.nonzero(bad)[0][0])
            res.fail("depth_outside_column",
                     f"step {step} particle {k}: Z {Z0[k]} -> {Z1[k]} with bottom depth {hstart[k]} at the start cell "
                     f"(w*dt = {W[k] * dt}, Dz = {Dz}, dt = {dt})")
            break
        unref = Z0 + (W * dt if case["vadv"] else 0)
        moved_cell = (np.floor(np.array(state.X) + 0.5) != np.floor(X0 + 0.5)) | (np.floor(np.array(state.Y) + 0.5) != np.floor(Y0 + 0.5))
        if ((unref < 0) | (unref > hstart)).any() or moved_cell.any() or \
                (kw.get("vertdiff") and ((Z0 == 0) | (Z0 == hstart)).sum() >= 4):
            nontriv = True
        if case["vadv"] and not kw.get("vertdiff"):
            # deterministic: reflected value is known exactly
            want = np.where(unref < 0, -unref, unref)
            ok = np.zeros(n, bool)
            for hc in (hstart, hlow):
                w2 = np.where(want > hc, 2 * hc - want, want)
                ok |= np.isclose(Z1, w2, rtol=1e-12, atol=1e-12 * float(hstart.max()))
            bad2 = premise & ~ok
            if bad2.any():
                k = int(np.nonzero(bad2)[0][0])
                res.fail("reflection_value",
                         f"step {step} particle {k} at ({X0[k]}, {Y0[k]}): Z {Z0[k]} + w*dt {W[k] * dt} -> {Z1[k]}, expected "
                         f"the value reflected at 0 and h = {hstart[k]}: {np.where(want > hstart, 2 * hstart - want, want)[k]}")
        if case.get("swap") and step < case["steps"] - 1 and bool(np.all(state.alive)) and len(state) > case["swap"]:
            k = int(case["swap"])
            al = np.array(state["alive"]).copy()
            al[:k] = False
            state["alive"] = al
            state.compactify()
            Xn, Yn = rng.uniform(xlo, xhi, k), rng.uniform(ylo, yhi, k)
            Zn = rng.uniform(0, 1, k) * ref_depth(H, Xn, Yn)[0]
            state.append(X=Xn, Y=Yn, Z=Zn)
            Wn = rng.uniform(-1, 1, k) * wmax
            an = rng.uniform(0, 2 * np.pi, k)
            U, V, W = (np.concatenate([U[k:], sp * np.cos(an)]), np.concatenate([V[k:], sp * np.sin(an)]),
                       np.concatenate([W[k:], Wn]))
            force.U, force.V = U, V
            force.variables["w"] = W
            res.cls("particles_swapped_between_steps")
    if kw.get("vertdiff") or case["vadv"]:
        res.nontrivial = nontriv
    return res


# ---------------------------------------------------------------------------
# part "run": whole simulations, the vertical velocity read from generated forcing files
# ---------------------------------------------------------------------------

RUN_DT = 60
STORAGES = ("f8", "f4", "p1", "p2", "p3")


@st.composite
def run_cases(draw):
    nfiles = draw(st.sampled_from([1, 2, 2, 3, 3]))
    return dict(jm=draw(st.integers(10, 13)), im=draw(st.integers(10, 13)), seed=draw(st.integers(0, 10**6)),
                hmin=draw(st.sampled_from([1.0, 5.0, 60.0, 800.0])), ratio=draw(st.sampled_from([1.0, 1.5, 3.0, 50.0])),
                N=draw(st.sampled_from([2, 3, 5])), wlevels=draw(st.sampled_from(["rho", "w"])),
                frames=[draw(st.integers(1, 3)) for _ in range(nfiles)],
                gaps=draw(st.sampled_from([1, 1, 2, 3])),
                storages=[draw(st.sampled_from(STORAGES)) for _ in range(nfiles)],
                wfrac=draw(st.floats(0.3, 0.9)), hspeed=draw(st.sampled_from([0.0, 0.0, 0.25])),
                scheme=draw(st.sampled_from(["EF", "RK4", ""])), mode=draw(st.sampled_from(["adv", "adv", "adv", "off"])),
                n=draw(st.sampled_from([6, 12])), layout=draw(st.sampled_from(["sparse", "dense"])))


def run_oracle(case) -> core.CaseResult:
    """0 <= Z <= h(cell at the start of the step) in every record of a run with vertical advection, for any way the
    forcing files store w; the bound on the displacement comes from the largest |w| the files hold at all."""
    from vlib import e2e, roms, scen

    res = core.CaseResult()
    rng = np.random.default_rng(case["seed"])
    jm, im, N, dt = case["jm"], case["im"], case["N"], RUN_DT
    hmin = case["hmin"]
    H = hmin * np.exp(rng.uniform(0, np.log(case["ratio"]), (jm, im))) if case["ratio"] > 1 else np.full((jm, im), hmin)
    H.flat[rng.integers(H.size)] = hmin
    dx = 200.0
    G = roms.make_grid(jm, im, N=N, h=H, mask="none", dx=dx, seed=case["seed"], levels="random")
    G["hc"] = 0.0
    nfr = sum(case["frames"])
    wmax = case["wfrac"] * hmin / dt            # |w| dt <= wfrac * (smallest depth) < every depth
    nw = N if case["wlevels"] == "rho" else N + 1
    W = rng.uniform(-1, 1, (nfr, nw, jm, im)) * wmax
    W[:, :, ::2, ::3] = np.sign(W[:, :, ::2, ::3]) * wmax      # many cells at the largest speed
    usp = case["hspeed"] * dx / dt
    ang = rng.uniform(0, 2 * np.pi)
    U = np.full((nfr, N, jm, im - 1), usp * np.cos(ang))
    V = np.full((nfr, N, jm - 1, im), usp * np.sin(ang))
    ftimes = [scen.T0 + scen.S(k * case["gaps"] * dt) for k in range(nfr)]
    nsteps = max(2, (nfr - 1) * case["gaps"]) if nfr > 1 else 3
    nsteps = min(nsteps, 8)
    res.cls("vertical_advection_" + ("on" if case["mode"] == "adv" else "off"))
    res.cls(f"{len(case['frames'])}_forcing_files")
    if len(set(case["storages"])) > 1:
        res.cls("files_store_w_differently")
    wdec_max = 0.0
    with e2e.workdir() as d:
        a = 0
        for n_, cnt in enumerate(case["frames"]):
            stor = case["storages"][n_]
            if stor in ("p1", "p2", "p3"):
                stor = ("i2", wmax / {"p1": 2000.0, "p2": 500.0, "p3": 8000.0}[stor])
            dec = roms.write_roms(d / f"f_{n_:03d}.nc", G, ftimes[a:a + cnt], U[a:a + cnt], V[a:a + cnt],
                                  extra={"w": W[a:a + cnt]}, storage=stor)
            wdec_max = max(wdec_max, float(np.abs(dec["w"]).max()))
            a += cnt
        fname = str(d / "f_000.nc") if len(case["frames"]) == 1 else str(d / "f_*.nc")
        # particles well inside (at most 0.25 cells per step for at most 8 steps), at all depths incl. 0 and h
        n = case["n"]
        X = rng.uniform(3.6, im - 4.6, n)
        Y = rng.uniform(3.6, jm - 4.6, n)
        X[0], Y[0] = 4.0, 4.0
        hlo, _ = ref_depth(H, X, Y)
        Z = rng.uniform(0, 1, n) * hlo
        Z[1] = 0.0
        Z[2] = hlo[2]
        start = scen.T0
        if nfr > 1 and case["seed"] % 3 == 0:
            start = scen.T0 + scen.S(dt)   # start between the first two frames, or on the second
        stop = start + scen.S(nsteps * dt)
        if stop > ftimes[-1] and nfr > 1:
            stop = ftimes[-1]
            nsteps = int((stop - start) / scen.S(dt))
        if nfr == 1:
            # a single frame cannot cover a time window: the same field once more at the end
            roms.write_roms(d / "f_999.nc", G, [stop + scen.S(dt)], U[:1], V[:1], extra={"w": W[:1]}, storage="f8")
            fname = str(d / "f_*.nc")
        if nsteps < 1:
            res.nontrivial = False
            return res
        e2e.write_release(d / "rel.rls", [[e2e.iso(start), float(x), float(y), float(z)] for x, y, z in zip(X, Y, Z)],
                          ["release_time", "X", "Y", "Z"])
        conf = e2e.base_conf(d, start, stop, dt, fname, d / "rel.rls", advection=case["scheme"] or "EF", period=dt,
                             layout=case["layout"])
        if not case["scheme"]:
            del conf["tracker"]["advection"]
        conf["grid"]["filename"] = str(d / "f_000.nc")
        conf["forcing"]["extra_forcing"] = ["w"]
        conf["state"] = {"instance_variables": {"w": "float"}}
        if case["mode"] == "adv":
            conf["tracker"]["vertical_advection"] = True
        e2e.write_yaml(conf, d / "ladim.yaml")
        r = e2e.run_main(d / "ladim.yaml")
        if not res.check(r["status"] == "ok", "run_fails", f"{r['exc']}\n{(r['tb'] or '')[-600:]}"):
            return res
        if case["layout"] == "sparse":
            f = e2e.read_sparse(d / "out.nc")
            recs = [{int(p): (float(x), float(y), float(z)) for p, x, y, z in zip(rc["pid"], rc["X"], rc["Y"], rc["Z"])}
                    for rc in f["records"]]
        else:
            f = e2e.read_dense(d / "out.nc")
            recs = []
            for k in range(len(f["times"])):
                row = {}
                for p in range(f["inst"]["X"].shape[1]):
                    if not np.ma.getmaskarray(f["inst"]["X"])[k, p]:
                        row[p] = (float(f["inst"]["X"][k, p]), float(f["inst"]["Y"][k, p]), float(f["inst"]["Z"][k, p]))
                recs.append(row)
    # premise of the property: the displacement of every step is smaller than every depth of the grid
    assert wdec_max * dt < hmin, (wdec_max * dt, hmin)
    res.check(len(recs) == nsteps, "record_count", f"{len(recs)} records, expected {nsteps}")
    changed = 0
    for k in range(1, len(recs)):
        for p, (x1, y1, z1) in recs[k].items():
            if p not in recs[k - 1]:
                continue
            x0, y0, z0 = recs[k - 1][p]
            lo, hi = ref_depth(H, np.array([x0]), np.array([y0]))
            if case["mode"] == "off":
                res.check(z1 == z0, "depth_changed_when_off", f"record {k} pid {p}: Z {z0} -> {z1} with vertical movement off")
                continue
            if not (0 <= z0 <= lo[0]):
                continue   # carried into a shallower cell by the horizontal flow: outside the quantifier
            changed += z1 != z0
            res.check(np.isfinite(z1) and 0 <= z1 <= hi[0] * (1 + 1e-12), "depth_outside_column",
                      f"record {k} pid {p}: Z {z0} -> {z1}, bottom depth of the cell at ({x0}, {y0}) is {hi[0]}; "
                      f"largest |w| on the files {wdec_max} m/s, dt {dt} s")
            res.check(abs(z1 - z0) <= wdec_max * dt * (1 + 1e-6) + 1e-12,  # single-precision product allowed "moved_further_than_any_w",
                      f"record {k} pid {p}: Z {z0} -> {z1} is further than the largest |w| on the files "
                      f"({wdec_max} m/s) times dt {dt} s")
    res.nontrivial = (case["mode"] == "off" and len(recs) >= 2) or changed >= 3
    return res


def shard(part, n, seed, known):
    stt = core.Stats()
    if part == "run":
        core.drive(part, run_cases(), run_oracle, n, seed, stt, known)
        return stt
    core.drive(part, cases() if part == "column" else roms_cases(), oracle, n, seed, stt, known)
    return stt


def run(ctx):
    jobs = [("column", k, core.subseed(ctx.seed, "z", i), ctx.known_sigs)
            for i, k in enumerate(core.split(ctx.n(6000, 60000), 8))]
    jobs += [("stock", k, core.subseed(ctx.seed, "s", i), ctx.known_sigs)
             for i, k in enumerate(core.split(ctx.n(6000, 60000), 8))]
    jobs += [("run", k, core.subseed(ctx.seed, "r", i), ctx.known_sigs)
             for i, k in enumerate(core.split(ctx.n(480, 6000), 8))]
    stats = core.Stats()
    for s in core.pmap(shard, jobs):
        stats.merge(s)
    return stats, dict(
        rule=("generated bathymetries (1..5000 m, neighbour ratios up to 5000), positions incl. cell boundaries, start "
              "depths incl. exactly 0 and h, vertical diffusion and/or advection sized so that |w|dt + 6.5*sqrt(2 Dz dt) "
              "< min depth, all horizontal schemes with horizontal flow into other cells, 1-4 steps; "
              "oracle 0 <= Z' <= h(start cell), bitwise unchanged when both are off; non-trivial = an unreflected depth "
              "outside [0, h], a cell change, or >= 4 particles starting exactly on a boundary with diffusion on; "
              "part 'stock' repeats this with the stock ROMS Grid built from a generated file (random / eta-sloping / "
              "xi-sloping bathymetry, legal subgrids with i0 != j0) while the reference depth is read from the generated "
              "bathymetry itself"),
        assumptions=["premise 'displacement smaller than the depth' enforced with a 6.5 sigma margin on the random part",
                     "part column: plug-in grid with nearest-cell depth; part stock: ladim.ROMS.Grid; a particle exactly "
                     "on a cell edge may be given either neighbouring cell"],
    )


def replay(part, case):
    return run_oracle(case) if part == "run" else oracle(case)
