"""C14 - particles are independent; runs are reproducible and time-shift invariant."""

from __future__ import annotations

import copy

import numpy as np
from hypothesis import strategies as st

from vlib import core, e2e, sim

PID = "C14"
LEVEL = "exploration"
VARS = ("X", "Y", "Z", "age", "temp")


@st.composite
def cases(draw, max_steps=14):
    scn = draw(sim.scenario(max_steps=max_steps, reverse=False, extra_forcing=True, continuous=(False,),
                            numrec=(0, 0, 2), pvars=[], lonlat=(False,), ref_kinds=("none", "before"),
                            masks=("none", "islands", "coast")))
    for r in scn["release"]["rows"]:
        r["mult"] = 1
    scn["forcing"]["vel"]["kind"] = draw(st.sampled_from(["shear", "shear", "noise"]))
    scn["grid"]["h"] = draw(st.sampled_from(["noise", "slope"]))
    scn["grid"]["metric"] = draw(st.sampled_from([None, "varying", "varying"]))  # cell sizes differ between cells
    # flavours: 0, 1 generic; 2 coastal; 3 stage_cross; 4 units_shift; 5 border; 6 empty_gap; 7 dense_release
    flav = draw(st.integers(0, 7))
    if flav == 2:
        # coastal flavour: everybody is released next to land in a flow that pushes towards it, some particles
        # are switched off or die early and stay in the state (dense layout, or output period > 1)
        scn["grid"]["mask"] = draw(st.sampled_from(["shore", "shore", "islands"]))
        rows = scn["release"]["rows"]
        for _ in range(draw(st.integers(2, 6))):  # a crowd: more particles in the first steps
            rows.append(dict(step=draw(st.integers(0, min(2, scn["time"]["nsteps"] - 1))), cell=draw(st.integers(0, 10**6)),
                             fx=draw(st.floats(-0.45, 0.45)), fy=draw(st.floats(-0.45, 0.45)),
                             zf=draw(st.floats(0.0, 1.0)), mult=1, tag=len(rows)))
        rows.sort(key=lambda r: (r["step"], r["tag"]))
        scn["release"]["near_land"] = True
        # velocity through a land face is zero, so a particle only lands when it moves more than its distance
        # to the face in one step: the flow towards the coast is faster than one cell per step
        scn["forcing"]["vel"].update(u=draw(st.sampled_from([-2.4, -1.9, -1.9, 1.9])),
                                     v=draw(st.sampled_from([0.0, 0.8, -1.9])), amp=0.2)
        nst = scn["time"]["nsteps"]
        tags = [r["tag"] for r in scn["release"]["rows"]]
        for _ in range(draw(st.integers(1, 3))):
            scn["ibm"]["deactivate"].append([draw(st.integers(0, max(0, nst - 1))), draw(st.sampled_from(tags))])
        scn["output"]["period"] = draw(st.sampled_from([1, 2, 3]))
        scn["coastal"] = True
    if flav == 3:
        # deaths seen by a sparse record in a run whose Runge-Kutta stages leave the start cell: fast sheared
        # flow over an uneven bottom, a record every step
        scn["tracker"]["advection"] = draw(st.sampled_from(["RK2", "RK4"]))
        scn["output"]["layout"] = "sparse"
        scn["output"]["period"] = 1
        scn["grid"]["h"] = "noise"
        scn["forcing"]["vel"].update(kind="shear", amp=0.5, u=draw(st.sampled_from([0.6, -0.6, 0.3])),
                                     v=draw(st.sampled_from([0.5, -0.4])))
        scn["stage_cross"] = True
        scn["time"]["nsteps"] = max(scn["time"]["nsteps"], 7)
        need = scn["time"]["pre"] + scn["time"]["nsteps"] + 1
        while sum(scn["forcing"]["gaps"]) < need:
            scn["forcing"]["gaps"].append(draw(st.integers(1, 4)))
        scn["forcing"]["partition"] = [len(scn["forcing"]["gaps"]) + 1]
        rows = scn["release"]["rows"]
        for _ in range(draw(st.integers(4, 8))):  # a crowd at the start, at all depths
            rows.append(dict(step=min(r["step"] for r in rows), cell=draw(st.integers(0, 10**6)),
                             fx=draw(st.floats(-0.45, 0.45)), fy=draw(st.floats(-0.45, 0.45)),
                             zf=draw(st.floats(0.0, 1.0)), mult=1, tag=len(rows)))
        rows.sort(key=lambda r: (r["step"], r["tag"]))
    if flav == 4:
        # forcing time axis in days / hours since another epoch (float64 values that are not exact) and the whole
        # set-up shifted by whole steps
        scn["forcing"]["tunits"] = draw(st.sampled_from(["days", "days", "hours"]))
        scn["units_shift"] = True
    if flav == 5:
        # a particle that is switched off early, and another one released later right at the eastern edge in an
        # eastward flow, which leaves the grid in the step of its release; the variant run does without it
        scn["grid"]["mask"] = "none"
        scn["forcing"]["vel"].update(kind="shear", amp=0.05, u=0.45, v=0.0)
        nst = scn["time"]["nsteps"] = max(scn["time"]["nsteps"], 6)
        need = scn["time"]["pre"] + nst + 1
        while sum(scn["forcing"]["gaps"]) < need:
            scn["forcing"]["gaps"].append(draw(st.integers(1, 4)))
        scn["forcing"]["partition"] = [len(scn["forcing"]["gaps"]) + 1]
        rows = scn["release"]["rows"]
        first = min(r["step"] for r in rows)
        for r in rows:
            r["fx"] = -0.4  # the others start at the western side of their cell
        leaver = dict(rows[0], step=min(first + draw(st.integers(2, 3)), nst - 1), edge="east", fx=0.4, tag=len(rows))
        rows.append(leaver)
        rows.sort(key=lambda r: (r["step"], r["tag"]))
        scn["ibm"]["deactivate"] = [[first, rows[0]["tag"]]]
        scn["ibm"]["kills"] = []
        scn["ibm"]["lifetime"] = 0
        scn["border"] = leaver["tag"]
    if flav == 6:
        # one early particle and the rest released a few steps later; without the early one the model runs with
        # an empty state until then (forcing varying in time)
        nst = scn["time"]["nsteps"] = max(scn["time"]["nsteps"], 6)
        need = scn["time"]["pre"] + nst + 1
        while sum(scn["forcing"]["gaps"]) < need:
            scn["forcing"]["gaps"].append(draw(st.integers(1, 3)))
        scn["forcing"]["partition"] = [len(scn["forcing"]["gaps"]) + 1]
        rows = scn["release"]["rows"]
        first = min(r["step"] for r in rows)
        gap = draw(st.integers(2, 4))
        for k, r in enumerate(sorted(rows, key=lambda r: r["tag"])):
            r["step"] = first if k == 0 else min(max(r["step"], first + gap), nst - 1)
        rows.sort(key=lambda r: (r["step"], r["tag"]))
        if len(rows) == 1:
            rows.append(dict(rows[0], step=min(first + gap, nst - 1), tag=1, fx=-rows[0]["fx"]))
        scn["ibm"]["kills"] = []
        scn["ibm"]["lifetime"] = 0
        scn["empty_gap"] = min(r["tag"] for r in rows)
    if flav == 7:
        # dense layout (dead particles stay in the state): one of the first particles dies early in the variant
        # run, others are released after that
        scn["output"]["layout"] = "dense"
        nst = scn["time"]["nsteps"] = max(scn["time"]["nsteps"], 7)
        need = scn["time"]["pre"] + nst + 1
        while sum(scn["forcing"]["gaps"]) < need:
            scn["forcing"]["gaps"].append(draw(st.integers(1, 4)))
        scn["forcing"]["partition"] = [len(scn["forcing"]["gaps"]) + 1]
        rows = scn["release"]["rows"]
        first = min(r["step"] for r in rows)
        base = dict(rows[0])
        rows[:] = [dict(base, step=first, tag=k, fx=base["fx"] * (1 - 0.15 * k), fy=-base["fy"] * (1 - 0.1 * k))
                   for k in range(3)]
        for k in range(draw(st.integers(1, 3))):
            rows.append(dict(base, step=min(first + 3 + k, nst - 1), tag=len(rows), cell=draw(st.integers(0, 10**6))))
        scn["ibm"].update(kills=[], lifetime=0)
        scn["dense_release"] = True
    if flav in (0, 1) and draw(st.sampled_from([False, True])):
        # positions given as longitude / latitude on a curvilinear grid: the model converts the whole table at once
        scn["grid"]["curved"] = True
        scn["grid"]["mask"] = "none"
        scn["release"]["by_lonlat"] = True
    ntag = len(scn["release"]["rows"])
    variant = draw(st.sampled_from(["drop", "add", "permute", "kill_others", "shift", "repeat", "kill_others", "drop", "add_zero"]))
    if scn.get("stage_cross"):
        variant = draw(st.sampled_from(["kill_others", "kill_others", "drop"]))
    if scn.get("units_shift"):
        variant = "shift"
    if scn.get("dense_release"):
        variant = "kill_others"
    if "border" in scn or "empty_gap" in scn:
        variant = "drop"
    v = dict(kind=variant)
    if variant == "drop" and "border" in scn:
        v["keep"] = [r["tag"] != scn["border"] for r in scn["release"]["rows"]]
    elif variant == "drop" and "empty_gap" in scn:
        v["keep"] = [r["tag"] != scn["empty_gap"] for r in scn["release"]["rows"]]
    elif variant == "drop":
        v["keep"] = draw(st.lists(st.booleans(), min_size=ntag, max_size=ntag))
    elif variant == "add":
        v["rows"] = [dict(step=draw(st.integers(0, max(0, scn["time"]["nsteps"] - 1))), cell=draw(st.integers(0, 10**6)),
                          fx=draw(st.floats(-0.45, 0.45)), fy=draw(st.floats(-0.45, 0.45)), zf=draw(st.floats(0, 1)),
                          mult=1, tag=1000 + k) for k in range(draw(st.integers(1, 4)))]
    elif variant == "add_zero":
        # rows with mult = 0 (they release nothing) at release times other rows use
        steps_ = sorted(set(r["step"] for r in scn["release"]["rows"]))
        v["kind"] = "add"
        v["rows"] = [dict(step=draw(st.sampled_from(steps_)), cell=draw(st.integers(0, 10**6)), fx=0.1, fy=-0.1, zf=0.5,
                          mult=0, tag=1000 + k) for k in range(draw(st.integers(1, 2)))]
        v["zero"] = True
    elif variant == "permute":
        v["seed"] = draw(st.integers(0, 10**6))
    elif variant == "kill_others" and scn.get("dense_release"):
        v["victims"] = [draw(st.integers(0, 1))]
        v["when"] = [min(r["step"] for r in scn["release"]["rows"]) + 1]
    elif variant == "kill_others" and scn.get("stage_cross"):
        # a few of the first particles die one after the other early in the run: several death-then-record events
        v["victims"] = list(range(draw(st.integers(1, 3))))
        first = min(r["step"] for r in scn["release"]["rows"])
        v["when"] = [first + 1 + 2 * k for k in range(len(v["victims"]))]
    elif variant == "kill_others":
        v["victims"] = draw(st.lists(st.integers(0, ntag - 1), min_size=1, max_size=max(1, ntag - 1), unique=True))
        v["when"] = [draw(st.integers(0, max(0, scn["time"]["nsteps"] - 1))) for _ in v["victims"]]
    elif variant == "shift":
        v["k"] = draw(st.integers(-30, 30).filter(lambda k: k != 0))
    scn["variant"] = v
    return scn


def make_variant(scn):
    v = scn["variant"]
    s2 = copy.deepcopy(scn)
    shift = 0
    compare = None  # tags to compare (None = all common)
    rows = s2["release"]["rows"]
    if v["kind"] == "drop":
        keep = [r for r, k in zip(rows, v["keep"]) if k]
        if not keep:  # at least one row must remain; it need not be one of the first step
            keep = rows[-1:]
        keep.sort(key=lambda r: (r["step"], r["tag"]))
        s2["release"]["rows"] = keep
    elif v["kind"] == "add":
        rows = rows + v["rows"]
        rows.sort(key=lambda r: (r["step"], r["tag"]))
        s2["release"]["rows"] = rows
    elif v["kind"] == "permute":
        rng = np.random.default_rng(v["seed"])
        out = []
        for stp in sorted(set(r["step"] for r in rows)):
            grp = [r for r in rows if r["step"] == stp]
            rng.shuffle(grp)
            out += grp
        s2["release"]["rows"] = out
    elif v["kind"] == "kill_others":
        s2["ibm"]["kills"] = s2["ibm"]["kills"] + [[w, t] for w, t in zip(v["when"], v["victims"])]
        compare = set(r["tag"] for r in rows) - set(v["victims"])
    elif v["kind"] == "shift":
        shift = v["k"]
    return s2, shift, compare


def trajectories(d, scn, names, columns=None, idmap=None):
    """tag -> list of (time, {var: value}) from the output files (sparse or dense).

    columns (dense layout): filled with tag -> set of columns of the particle axis the tag was found in."""
    traj: dict = {}
    layout = scn["output"]["layout"]
    for name in names:
        if layout == "sparse":
            f = e2e.read_sparse(d / name)
            for t, rec in zip(f["times"], f["records"]):
                for k in range(len(rec["pid"])):
                    if idmap is not None:
                        idmap.setdefault(("tag", int(rec["tag"][k])), set()).add(int(rec["pid"][k]))
                        idmap.setdefault(("pid", int(rec["pid"][k])), set()).add(int(rec["tag"][k]))
                    traj.setdefault(int(rec["tag"][k]), []).append((t, {v: rec[v][k] for v in VARS if v in rec}))
        else:
            f = e2e.read_dense(d / name)
            tagarr = f["inst"]["tag"]
            for n, t in enumerate(f["times"]):
                row = np.ma.asarray(tagarr[n])
                m = np.ma.getmaskarray(row)
                for p in range(len(row)):
                    if not m[p]:
                        if columns is not None:
                            columns.setdefault(int(row[p]), set()).add(p)
                        traj.setdefault(int(row[p]), []).append(
                            (t, {v: f["inst"][v][n, p] for v in VARS if v in f["inst"]}))
    return traj


def oracle(scn) -> core.CaseResult:
    res = core.CaseResult()
    v = scn["variant"]
    res.cls(v["kind"] + ("_zero_mult" if v.get("zero") else ""))
    res.cls(scn["output"]["layout"])
    if scn["grid"].get("metric"):
        res.cls("cell_sizes_vary")
    if scn["release"].get("by_lonlat"):
        res.cls("released_by_lonlat_on_a_curvilinear_grid")
    if scn.get("coastal"):
        res.cls("coastal")
    if scn.get("stage_cross"):
        res.cls("stage_cross")
    if scn.get("units_shift"):
        res.cls("units_shift")
    if "border" in scn:
        res.cls("border")
    if "empty_gap" in scn:
        res.cls("empty_gap")
    if scn.get("dense_release"):
        res.cls("dense_release")
    s2, shift, compare = make_variant(scn)
    with e2e.workdir() as d1, e2e.workdir() as d2:
        r1, m1 = sim.run(d1, scn, record_output=False)
        r2, m2 = sim.run(d2, s2, record_output=False, shift_steps=shift)
        if r1["status"] != "ok" or r2["status"] != "ok":
            bad = r1 if r1["status"] != "ok" else r2
            res.fail("run_fails", f"{bad['exc']}\n{(bad['tb'] or '')[-600:]}")
            return res
        n1, n2 = e2e.list_outputs(d1), e2e.list_outputs(d2)
        col1, col2 = {}, {}
        id1, id2 = {}, {}
        t1 = trajectories(d1, scn, n1, col1, id1)
        t2 = trajectories(d2, s2, n2, col2, id2)
    # "up to renumbering": within a run the identifiers and the release rows (unique tags, mult = 1) correspond
    # one to one - no identifier carries two particles, no particle changes its identifier
    for which, ids in (("base", id1), ("variant", id2)):
        amb = {f"{k[0]} {k[1]}": sorted(vs) for k, vs in ids.items() if len(vs) > 1}
        if not res.check(not amb, "identifier_not_one_to_one",
                         f"{which} run ({v['kind']}): identifiers and release rows do not correspond one to one: {amb}"):
            return res
    for which, cols in (("base", col1), ("variant", col2)):
        moved = {tg: sorted(c) for tg, c in cols.items() if len(c) > 1}
        if not res.check(not moved, "dense_column_changes",
                         f"{which} run ({v['kind']}): in the dense file a particle's values move between columns of the "
                         f"particle axis (tag -> columns {moved})"):
            return res
    dt = np.timedelta64(shift * sim.DT, "s")
    tags = set(t1) & set(t2)
    if compare is not None:
        tags &= compare
    if v["kind"] in ("repeat", "permute", "shift", "add"):
        res.check(set(t1) <= set(t2), "particles_missing", f"tags {sorted(set(t1) - set(t2))} missing in the variant run")
    if v["kind"] == "kill_others":
        # the victims may only disappear earlier; everyone else must be there exactly as before
        for tg in compare & set(t1):
            res.check(tg in t2, "particles_missing", f"tag {tg} missing after other particles were killed")
    differs = False
    for tg in sorted(tags):
        a, b = t1[tg], t2[tg]
        if not res.check(len(a) == len(b), "trajectory_length",
                         f"tag {tg}: {len(a)} records in the base run, {len(b)} in the variant ({v['kind']})"):
            continue
        for (ta, va), (tb, vb) in zip(a, b):
            if not res.check(ta + dt == tb, "record_time", f"tag {tg}: record time {ta} vs {tb} (shift {shift} steps)"):
                break
            bad = [k for k in va if not (va[k] == vb[k] or (np.isnan(va[k]) and np.isnan(vb[k])))]
            if bad:
                res.fail("trajectory_differs",
                         f"variant '{v['kind']}': tag {tg} at {ta}: " +
                         ", ".join(f"{k} {va[k]!r} vs {vb[k]!r}" for k in bad))
                differs = True
                break
        if differs:
            break
    # non-trivial: the variant changes the number of particles alive at some record where a compared particle exists
    c1 = {}
    for tg, tr in t1.items():
        for t, _ in tr:
            c1[t] = c1.get(t, 0) + 1
    c2 = {}
    for tg, tr in t2.items():
        for t, _ in tr:
            c2[t - dt] = c2.get(t - dt, 0) + 1
    changed = any(c1.get(t, 0) != c2.get(t, 0) for t in set(c1) | set(c2))
    res.nontrivial = bool(tags) and (changed or v["kind"] in ("shift", "repeat", "permute"))
    deaths1 = any(len(tr) < max(len(x) for x in t1.values()) for tr in t1.values()) if t1 else False
    if deaths1:
        res.cls("base_has_short_trajectories")
    return res


def shard(n, seed, known, max_steps):
    stt = core.Stats()
    core.drive("pair", cases(max_steps), oracle, n, seed, stt, known)
    return stt


def run(ctx):
    jobs = [(k, core.subseed(ctx.seed, "p", i), ctx.known_sigs, ctx.n(14, 40))
            for i, k in enumerate(core.split(ctx.n(1280, 16000), 16))]
    stats = core.Stats()
    for s in core.pmap(shard, jobs):
        stats.merge(s)
    return stats, dict(
        rule=("generated base scenario (depth- and position-dependent currents over variable bathymetry, land, scripted "
              "kills by tag followed by output steps, lifetimes, late releases, scalar forcing, ageing IBM, sparse/dense, "
              "split files) paired with one variant: drop rows / add rows / permute rows within a time / kill other "
              "particles / shift all times by k steps / repeat; per-tag trajectories must be bit-identical; "
              "non-trivial = the variant changes the number of living particles at some record (or is shift/repeat/permute)"),
        assumptions=["every release row has mult 1 and a unique tag so trajectories can be matched after renumbering",
                     "f8 output; diffusion off"],
    )


def replay(part, case):
    return oracle(case)
