"""C08 - restart transparency: a warm start continues as if the run never stopped.

Every file boundary of a split run is used as a restart point (enumerated); the restarted
run's files are compared record by record with the uninterrupted run's.
"""

from __future__ import annotations

import copy

import numpy as np
from hypothesis import strategies as st

from vlib import core, e2e, sim

PID = "C08"
LEVEL = "fault_enumeration"
TOL = 1e-9


@st.composite
def cases(draw, max_steps=16):
    scn = draw(sim.scenario(max_steps=max_steps, reverse=False, layouts=("sparse",), extra_forcing=True,
                            numrec=(1, 2, 3, 4), lonlat=(False,), dtypes=("f8",),
                            ref_kinds=("none", "before", "after")))
    scn["time"]["nsteps"] = draw(st.integers(3, max_steps))
    # frames must cover the (possibly longer) run
    need = scn["time"]["pre"] + scn["time"]["nsteps"] + 1
    while sum(scn["forcing"]["gaps"]) < need:
        scn["forcing"]["gaps"].append(draw(st.integers(1, 5)))
    nfr = len(scn["forcing"]["gaps"]) + 1
    part = []
    left = nfr
    while left > 0:
        k = draw(st.integers(1, left))
        part.append(k)
        left -= k
    scn["forcing"]["partition"] = part
    # the `active` flag is restartable state only when it is written to the file (as 0 / 1 bytes) and named among
    # the warm-start variables; otherwise nothing switches particles off in these runs
    if draw(st.sampled_from([False, False, True])) and scn["ibm"]["deactivate"]:
        scn["output"]["active_out"] = True
    else:
        scn["ibm"]["deactivate"] = []
    # state variable stored packed in the restart file (lossless: age counts whole steps)
    scn["output"]["pack_age"] = draw(st.sampled_from([None, None, [0.25, -3.0], [0.5, 0.0]]))
    for r in scn["release"]["rows"]:
        r["step"] = min(r["step"], scn["time"]["nsteps"] - 1)
    scn["release"]["rows"].sort(key=lambda r: (r["step"], r["tag"]))
    scn["grid"]["metric"] = draw(st.sampled_from([None, "varying"]))  # cell sizes that differ between cells
    return scn


def read_all(d, names):
    return {n: e2e.read_sparse(d / n) for n in names}


def compare_files(res, name, fa, fb, stop, scn, tag):
    """fa: uninterrupted, fb: restarted."""
    na, nb = len(fa["times"]), len(fb["times"])
    if nb == na + 1 and fb["times"][-1] == stop:
        nb_cmp = na  # a restarted run may end with one extra record at the stop time
    else:
        nb_cmp = nb
    if not res.check(nb_cmp == na, "record_count" + tag,
                     f"{name}: {nb} records after restart, {na} in the uninterrupted run "
                     f"(times {[str(t) for t in fb['times']]} vs {[str(t) for t in fa['times']]})"):
        return
    for n in range(na):
        ra, rb = fa["records"][n], fb["records"][n]
        if not res.check(fa["times"][n] == fb["times"][n], "record_time" + tag,
                         f"{name} rec {n}: time {fb['times'][n]} vs {fa['times'][n]}"):
            return
        pa, pb = [int(p) for p in ra["pid"]], [int(p) for p in rb["pid"]]
        if not res.check(pa == pb, "pid_set" + tag,
                         f"{name} rec {n} ({fa['times'][n]}): pids after restart {pb}, uninterrupted {pa}"):
            return
        for var in ra:
            if var == "pid":
                continue
            a, b = np.asarray(ra[var], float), np.asarray(rb[var], float)
            ok = np.allclose(a, b, rtol=TOL, atol=TOL, equal_nan=True)
            if not res.check(ok, "value_" + ("state" if var in ("age", "temp", "tag") else "position") + tag,
                             f"{name} rec {n} ({fa['times'][n]}): {var} after restart {b}, uninterrupted {a}"):
                return
    for var in fa["pvars"]:
        a = np.ma.asarray(fa["pvars"][var])
        b = fb["pvars"].get(var)
        if not res.check(b is not None, "pvar_missing" + tag, f"{name}: {var} missing after restart"):
            continue
        b = np.ma.asarray(b)
        ua, ub = fa["attrs"][var].get("units", ""), fb["attrs"][var].get("units", "")
        if "since" in ua and "since" in ub:  # time-typed: compare instants, the reference may differ
            ra_ = np.datetime64(ua.split("since")[1].strip(), "s")
            rb_ = np.datetime64(ub.split("since")[1].strip(), "s")
            b = b + float((rb_ - ra_) / np.timedelta64(1, "s"))
        # compare for the pids present in the uninterrupted file's particle axis
        n = min(len(a), len(b))
        ok = len(b) >= len(a) and np.ma.allclose(a[:n], b[:n], rtol=TOL, atol=TOL) and \
            np.array_equal(np.ma.getmaskarray(a[:n]), np.ma.getmaskarray(b[:n]))
        res.check(bool(ok), "pvar_value" + tag, f"{name}: {var} after restart {b}, uninterrupted {a}")


def oracle(scn) -> core.CaseResult:
    res = core.CaseResult()
    numrec = scn["output"]["numrec"]
    period = scn["output"]["period"]
    nsteps = scn["time"]["nsteps"]
    res.cls(f"numrec{numrec}")
    res.cls("duration_multiple" if nsteps % period == 0 else "duration_residue")
    res.cls("continuous" if scn["release"]["continuous"] else "discrete")
    res.cls(scn["tracker"]["advection"])
    if scn["output"].get("pack_age"):
        res.cls("packed_state_variable_in_restart_file")
    if scn["output"].get("active_out"):
        res.cls("particles_switched_off_flag_in_restart_file")
    with e2e.workdir() as d0:
        r0, m0 = sim.run(d0, scn, record_output=True)
        if not res.check(r0["status"] == "ok", "base_run_fails", f"{r0['exc']}\n{(r0['tb'] or '')[-500:]}"):
            return res
        names = e2e.list_outputs(d0)
        base = read_all(d0, names)
        writes = [e for e in r0["log"] if e[0] == "write"]
        npid_at = {np.datetime64(w[2], "s"): w[5] for w in writes}
        start, stop = m0["start"], m0["stop"]
        points = 0
        for k, wname in enumerate(names):
            fk = base[wname]
            t_restart = fk["times"][-1]
            steps_done = int((t_restart - start) / np.timedelta64(sim.DT, "s"))
            if steps_done >= nsteps or len(fk["times"]) < numrec:
                continue  # nothing left to simulate / file not complete
            points += 1
            last_pids = [int(p) for p in fk["records"][-1]["pid"]]
            trailing_dead = (max(last_pids) + 1 if last_pids else 0) != npid_at[t_restart]
            tag = "_after_trailing_deaths" if trailing_dead else ""
            if trailing_dead:
                res.cls("restart_point_with_trailing_dead_pids")
            with e2e.workdir() as d1:
                s1 = copy.deepcopy(scn)
                path, m1 = sim.build(d1, s1, out_name=f"out_{k + 1:03d}.nc", record_output=False,
                                     ibm_offset=steps_done)
                conf = m1["conf"]
                del conf["time"]["start"]
                wvars = ["tag", "age"] + (["temp"] if scn["forcing"]["temp"] else []) + list(scn["pvars"])
                if scn["output"].get("active_out"):
                    wvars.append("active")
                conf["warm_start"] = {"filename": str(d0 / wname), "variables": wvars}
                e2e.write_yaml(conf, path)
                r1 = e2e.run_main(path)
                if not res.check(r1["status"] == "ok", "restart_fails" + tag,
                                 f"restart from {wname}: {r1['exc']}\n{(r1['tb'] or '')[-600:]}"):
                    continue
                rnames = e2e.list_outputs(d1)
                want = names[k + 1:]
                # the restarted run may write one more file holding only the record at the stop time
                ok_names = rnames[:len(want)] == want and len(rnames) - len(want) in (0, 1)
                if not res.check(ok_names, "file_names" + tag,
                                 f"restart from {wname}: files {rnames}, uninterrupted run has {want}"):
                    continue
                rest = read_all(d1, rnames)
                for nm in want:
                    compare_files(res, f"restart@{wname}:{nm}", base[nm], rest[nm], stop, scn, tag)
                for nm in rnames[len(want):]:
                    t = rest[nm]["times"]
                    res.check(len(t) == 0 or (len(t) == 1 and t[0] == stop), "extra_file" + tag,
                              f"restart from {wname}: extra file {nm} with times {[str(x) for x in t]}")
        res.info = points
        # non-trivial: a death and a release both happen after some restart point
        sets = [(w[1], set(int(p) for p in w[3]["pid"])) for w in writes]
        death_after = release_after = False
        for (s_a, a), (s_b, b) in zip(sets, sets[1:]):
            if s_a >= numrec * period - period:  # after the first file
                if a - b:
                    death_after = True
                if b - a:
                    release_after = True
        res.nontrivial = points >= 1 and death_after and release_after
        res.cls(f"restart_points_{min(points, 4)}")
    return res


def shard(n, seed, known, max_steps):
    stt = core.Stats()
    core.drive("restart", cases(max_steps), oracle, n, seed, stt, known)
    return stt


def run(ctx):
    jobs = [(k, core.subseed(ctx.seed, "r", i), ctx.known_sigs, ctx.n(16, 40))
            for i, k in enumerate(core.split(ctx.n(800, 8000), 16))]
    stats = core.Stats()
    for s in core.pmap(shard, jobs):
        stats.merge(s)
    return stats, dict(
        rule=("generated scenarios (continuous or discrete release, IBM with ageing and lifetime, scripted kills, flow "
              "out of the grid, scalar forcing copied to the state, EF/RK2/RK4, particle variables, durations that are "
              "and are not multiples of the period) run split with numrec 1..4; EVERY completed file of the split run "
              "is used as a restart point (enumerated, not sampled) and every later file compared record by record; "
              "non-trivial = at least one restart point and both a death and a release after the first file"),
        assumptions=["diffusion off, f8 forcing and f8 output; tolerance 1e-9 (restart re-derives the time interpolation "
                     "from the bracketing frames, so results agree to rounding, not bit for bit)",
                     "a restarted run may end with one extra record at the stop time; it is not compared",
                     "scripted IBM kills are keyed to absolute time through a step offset parameter"],
    )


def replay(part, case):
    return oracle(case)
