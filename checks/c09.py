"""C09 - particles stay in the water inside the domain; the dead stay dead."""

from __future__ import annotations

import numpy as np
from hypothesis import strategies as st

from vlib import core, e2e, roms, scen, sim

PID = "C09"
LEVEL = "exploration"
DT = 600
DX = 500.0


class PForce:
    """Plug-in forcing: each particle has its own constant velocity (all schemes agree)."""

    def __init__(self, U, V):
        self.U, self.V = U, V
        self.variables = {}

    def velocity(self, X, Y, Z, fractional_step=0, method="bilinear"):
        return self.U.copy(), self.V.copy()


class Timer:
    dt = np.timedelta64(DT, "s")


@st.composite
def step_cases(draw):
    jm = draw(st.integers(7, 14))
    im = draw(st.integers(7, 14))
    sub = None
    if draw(st.booleans()):
        i0 = draw(st.integers(1, im - 5))
        i1 = draw(st.integers(i0 + 4, im - 1))
        j0 = draw(st.integers(1, jm - 5))
        j1 = draw(st.integers(j0 + 4, jm - 1))
        sub = [i0, i1, j0, j1]
    return dict(jm=jm, im=im, sub=sub, mask=draw(st.sampled_from(["islands", "random", "coast", "channel", "none"])),
                seed=draw(st.integers(0, 10**6)), scheme=draw(st.sampled_from(["EF", "RK2", "RK4"])),
                npart=draw(st.sampled_from([8, 30])), speed=draw(st.sampled_from([0.3, 1.0, 2.5])),
                rim=draw(st.booleans()))


def make_mask(case):
    jm, im = case["jm"], case["im"]
    rng = np.random.default_rng(case["seed"])
    M = np.ones((jm, im))
    if case["mask"] == "islands":
        k = max(2, jm * im // 10)
        M[rng.integers(0, jm, k), rng.integers(0, im, k)] = 0
    elif case["mask"] == "random":
        M = (rng.uniform(size=(jm, im)) > 0.35).astype(float)
    elif case["mask"] == "coast":
        M[:, : im // 3] = 0
    elif case["mask"] == "channel":
        M[:] = 0
        M[jm // 2, :] = 1  # one-cell wide channel
        M[:, im // 2] = 1
    return M


def step_oracle(case) -> core.CaseResult:
    from ladim.ROMS import Grid
    from ladim.state import State
    from ladim.tracker import Tracker

    e2e.quiet()
    res = core.CaseResult()
    jm, im = case["jm"], case["im"]
    M = make_mask(case)
    G = roms.make_grid(jm, im, N=2, hval=50.0, mask=M, dx=DX, seed=case["seed"])
    sub = case["sub"] or [1, im - 1, 1, jm - 1]
    cells = sim.sea_cells(G, sub)
    res.cls(case["mask"])
    res.cls(case["scheme"])
    if not cells:
        res.cls("no_sea_cell")
        return res
    with e2e.workdir() as d:
        roms.write_roms(d / "g.nc", G, [], np.zeros((0, 2, jm, im - 1)), np.zeros((0, 2, jm - 1, im)))
        kw = {"filename": str(d / "g.nc")}
        if case["sub"]:
            kw["subgrid"] = list(case["sub"])
        grid = Grid(**kw)
    i0, i1, j0, j1 = sub
    lo_x, hi_x, lo_y, hi_y = i0 + 0.5, i1 - 1.5, j0 + 0.5, j1 - 1.5
    rng = np.random.default_rng(case["seed"] + 1)
    n = case["npart"]
    X = np.empty(n)
    Y = np.empty(n)
    for k in range(n):
        ci, cj = cells[rng.integers(len(cells))]
        X[k] = ci + rng.uniform(-0.49, 0.49)
        Y[k] = cj + rng.uniform(-0.49, 0.49)
        if case["rim"] and k % 3 == 0:  # within 0.01 of the rim of the valid region, if that is still this sea cell
            if ci - 0.5 < lo_x:
                X[k] = lo_x + rng.uniform(1e-9, 0.01)
            elif ci + 0.5 > hi_x:
                X[k] = hi_x - rng.uniform(1e-9, 0.01)
    X = np.clip(X, np.nextafter(lo_x, hi_x), np.nextafter(hi_x, lo_x))
    Y = np.clip(Y, np.nextafter(lo_y, hi_y), np.nextafter(hi_y, lo_y))
    sp = case["speed"] * DX / DT  # cells/step -> m/s
    ang = rng.uniform(0, 2 * np.pi, n)
    mag = rng.uniform(0, 1, n) * sp
    U, V = mag * np.cos(ang), mag * np.sin(ang)
    inactive0 = rng.uniform(size=n) < 0.2
    state = State()
    state.append(X=X, Y=Y, Z=1.0)
    act = np.ones(n, bool)
    act[inactive0] = False
    state["active"] = act
    force = PForce(U, V)
    tr = Tracker(modules=dict(state=state, grid=grid, time=Timer(), forcing=force), advection=case["scheme"])
    try:
        tr.update()
    except BaseException as e:  # noqa: BLE001
        import traceback

        res.fail("tracker_raises", f"{e!r}\n{traceback.format_exc()[-600:]}")
        return res
    X1, Y1 = np.array(state.X), np.array(state.Y)
    alive, active = np.array(state.alive), np.array(state.active)
    kills = cancels = 0
    for k in range(n):
        cx, cy = X[k] + U[k] * DT / DX, Y[k] + V[k] * DT / DX
        ing = lo_x < cx < hi_x and lo_y < cy < hi_y
        if inactive0[k]:
            # "inactive particles are not moved horizontally" (whether it is also killed when its
            # would-be move leaves the grid is not stated; not judged)
            res.check(X1[k] == X[k] and Y1[k] == Y[k], "inactive_moved",
                      f"inactive particle {k} moved from ({X[k]}, {Y[k]}) to ({X1[k]}, {Y1[k]})")
            continue
        if not ing:
            kills += 1
            res.check(not alive[k], "not_killed",
                      f"particle {k}: move ({X[k]}, {Y[k]}) -> ({cx}, {cy}) leaves the valid region "
                      f"({lo_x}, {hi_x}) x ({lo_y}, {hi_y}) but the particle is still alive at ({X1[k]}, {Y1[k]})")
            res.check(X1[k] == X[k] and Y1[k] == Y[k], "killed_moved", f"killed particle {k} was moved")
            continue
        # nearest cell of the candidate; exactly half-way is ambiguous -> accept either outcome
        fx, fy = cx - np.floor(cx), cy - np.floor(cy)
        ambiguous = fx == 0.5 or fy == 0.5
        land = M[int(np.floor(cy + 0.5)), int(np.floor(cx + 0.5))] < 1
        res.check(bool(alive[k]), "killed_inside", f"particle {k} with a move inside the valid region was killed")
        if ambiguous:
            continue
        if land:
            cancels += 1
            res.check(X1[k] == X[k] and Y1[k] == Y[k], "moved_onto_land",
                      f"particle {k}: move to ({cx}, {cy}) is on land but the particle is now at ({X1[k]}, {Y1[k]})")
        else:
            res.check(abs(X1[k] - cx) <= 1e-9 and abs(Y1[k] - cy) <= 1e-9, "not_moved",
                      f"particle {k}: expected ({cx}, {cy}), got ({X1[k]}, {Y1[k]})")
    # invariant for the living
    for k in range(n):
        if alive[k]:
            okr = np.isfinite(X1[k]) and np.isfinite(Y1[k]) and lo_x < X1[k] < hi_x and lo_y < Y1[k] < hi_y
            if res.check(bool(okr), "alive_outside", f"living particle {k} at ({X1[k]}, {Y1[k]}) outside the valid region"):
                res.check(M[int(np.floor(Y1[k] + 0.5)), int(np.floor(X1[k] + 0.5))] > 0 or
                          (X1[k] % 1 == 0.5 or Y1[k] % 1 == 0.5), "alive_on_land",
                          f"living particle {k} at ({X1[k]}, {Y1[k]}) is on land")
    res.nontrivial = kills >= 1 and cancels >= 1
    return res


# ---------------------------------------------------------------------------
# histories through ladim.main
# ---------------------------------------------------------------------------


@st.composite
def history_cases(draw, max_steps):
    scn = draw(sim.scenario(max_steps=max_steps, reverse=False, layouts=("sparse", "dense"), numrec=(0, 0, 0, 6),
                            masks=("islands", "coast", "random", "none"), pvars=[], lonlat=(False,),
                            ref_kinds=("none",)))
    scn["diffusion"] = draw(st.sampled_from([0.0, 0.0, 5.0, 50.0]))
    scn["forcing"]["vel"]["amp"] = draw(st.sampled_from([0.2, 0.5, 0.8]))
    scn["forcing"]["vel"]["kind"] = draw(st.sampled_from(["shear", "noise", "const"]))
    # some particles are released switched off: the release file has an 'active' column of 0 / 1
    scn["release"]["active_col"] = draw(st.sampled_from([0, 0, 0b0110, 0b1, 0b10101]))
    scn["grid"]["metric"] = draw(st.sampled_from([None, "varying"]))  # cell sizes that differ between cells
    # positions stored as packed integers (the way examples/killer/dense.yaml stores X)
    scn["output"]["pack_xy"] = draw(st.sampled_from([None, None, 0.01]))
    return scn


def history_oracle(scn) -> core.CaseResult:
    res = core.CaseResult()
    with e2e.workdir() as d:
        extra = {"tracker": {"diffusion": scn["diffusion"]}} if scn["diffusion"] else None
        r, meta = sim.run(d, scn, record_output=True, record_ibm=True, extra_conf=extra)
        if not res.check(r["status"] == "ok", "run_fails", f"{r['exc']}\n{(r['tb'] or '')[-600:]}"):
            return res
        # what the output files themselves show, record by record: the identifiers present
        file_pids = []
        try:
            for name in e2e.list_outputs(d):
                if scn["output"]["layout"] == "dense":
                    g = e2e.read_dense(d / name)
                    for n in range(len(g["times"])):
                        m = np.ma.getmaskarray(np.ma.asarray(g["inst"]["X"][n]))
                        file_pids.append({int(p) for p in np.nonzero(~m)[0]})
                else:
                    file_pids += [{int(p) for p in rec["pid"]} for rec in e2e.read_sparse(d / name)["records"]]
        except Exception as e:  # noqa: BLE001
            res.fail("output_unreadable", repr(e))
            return res
    res.cls(scn["output"]["layout"] + ("_positions_packed" if scn["output"].get("pack_xy") else ""))
    G = meta["G"]
    M = G["mask"]
    jm, im = M.shape
    i0, i1, j0, j1 = scn["grid"].get("sub") or [1, im - 1, 1, jm - 1]
    lo_x, hi_x, lo_y, hi_y = i0 + 0.5, i1 - 1.5, j0 + 0.5, j1 - 1.5
    if scn["grid"].get("sub"):
        res.cls("subgrid")
    res.cls("diffusion" if scn["diffusion"] else "no_diffusion")
    res.cls(scn["tracker"]["advection"])
    off_tags = set()
    if scn["release"].get("active_col"):
        res.cls("released_switched_off")
        off_tags = {t for t in range(64) if (scn["release"]["active_col"] >> (t % 8)) & 1}
    first_pos = {p_["tag"]: (p_["x"], p_["y"]) for p_ in meta["placed"]}
    dead_seen: set = set()
    prev = None
    kills = cancels = 0
    nwrite = 0
    for ev in r["log"]:
        if ev[0] == "write":
            if nwrite < len(file_pids):
                back = file_pids[nwrite] & dead_seen
                res.check(not back, "dead_in_output_file",
                          f"record {nwrite} (step {ev[1]}) of the {scn['output']['layout']} output shows pids {sorted(back)}, "
                          f"which were dead before it was written")
            nwrite += 1
            pids = set(int(p) for p in ev[3]["pid"])
            res.check(not (pids & dead_seen), "dead_in_record",
                      f"record at step {ev[1]} contains dead particles {sorted(pids & dead_seen)}")
        elif ev[0] == "ibm":
            step, snap = ev[1], ev[3]
            pid = snap["pid"].astype(int)
            alive = snap["alive"].astype(bool)
            X, Y = snap["X"], snap["Y"]
            if off_tags and "tag" in snap:
                # a particle released switched off stays where it was released (nothing in these runs switches it on)
                for k in range(len(pid)):
                    if int(snap["tag"][k]) in off_tags:
                        p0 = first_pos[int(snap["tag"][k])]
                        if not res.check(abs(X[k] - p0[0]) <= 1e-12 and abs(Y[k] - p0[1]) <= 1e-12, "released_inactive_moved",
                                         f"step {step}: pid {pid[k]} (released with active = 0) moved from {p0} to ({X[k]}, {Y[k]})"):
                            break
            res.check(not (set(pid[alive].tolist()) & dead_seen), "resurrected",
                      f"step {step}: dead particles alive again: {sorted(set(pid[alive].tolist()) & dead_seen)}")
            for k in np.nonzero(alive)[0]:
                ok = np.isfinite(X[k]) and np.isfinite(Y[k]) and lo_x < X[k] < hi_x and lo_y < Y[k] < hi_y
                if not res.check(bool(ok), "alive_outside",
                                 f"step {step}: living pid {pid[k]} at ({X[k]}, {Y[k]}) outside ({lo_x},{hi_x})x({lo_y},{hi_y})"):
                    continue
                onsea = M[int(np.floor(Y[k] + 0.5)), int(np.floor(X[k] + 0.5))] > 0 or X[k] % 1 == 0.5 or Y[k] % 1 == 0.5
                res.check(bool(onsea), "alive_on_land", f"step {step}: living pid {pid[k]} at ({X[k]}, {Y[k]}) on land")
            if prev is not None:
                ppid, pact, pX, pY = prev
                idx = {int(p): i for i, p in enumerate(ppid)}
                for k, p in enumerate(pid):
                    i = idx.get(int(p))
                    if i is None:
                        continue
                    if not pact[i]:
                        res.check(X[k] == pX[i] and Y[k] == pY[i], "inactive_moved",
                                  f"step {step}: inactive pid {p} moved from ({pX[i]}, {pY[i]}) to ({X[k]}, {Y[k]})")
                    elif alive[k] and X[k] == pX[i] and Y[k] == pY[i]:
                        cancels += 1
            kills += int((~alive).sum())
            dead_seen |= set(pid[~alive].tolist())
            prev = (pid, snap["active"].astype(bool), X.copy(), Y.copy())
    res.nontrivial = kills >= 1 and cancels >= 1
    return res


def shard(part, n, seed, known, max_steps):
    stt = core.Stats()
    if part == "step":
        core.drive(part, step_cases(), step_oracle, n, seed, stt, known)
    else:
        core.drive(part, history_cases(max_steps), history_oracle, n, seed, stt, known)
    return stt


def run(ctx):
    jobs = []
    ms = ctx.n(40, 200)
    for part, nq, nt, k in (("step", 4000, 40000, 8), ("history", 800, 8000, 8)):
        for i, m in enumerate(core.split(ctx.n(nq, nt), k)):
            jobs.append((part, m, core.subseed(ctx.seed, part, i), ctx.known_sigs, ms))
    stats = core.Stats()
    for s in core.pmap(shard, jobs):
        stats.merge(s)
    return stats, dict(
        rule=("step: real Grid from generated masks (islands, random, coast, one-cell channels) and subgrids, plug-in "
              "forcing giving each particle its own strong constant velocity, all schemes, positions incl. within 0.01 "
              "of the rim, 20 % pre-marked inactive; reference of kill / inactive / land-cancel / move; "
              "history: generated end-to-end runs (stock forcing, diffusion on/off) with per-step snapshots from a "
              "recording IBM and output; invariants after every step; non-trivial = at least one kill and one "
              "cancelled / unmoved particle"),
        assumptions=["a candidate position exactly half-way between two cells may be attributed to either",
                     "with diffusion on only the invariants are applied (random draws are not replicated)"],
    )


def replay(part, case):
    return step_oracle(case) if part == "step" else history_oracle(case)
