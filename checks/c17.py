"""C17 - compiled sampling kernels never read outside the forcing arrays.

The scenario spaces of the other checks are re-run in workers started with NUMBA_BOUNDSCHECK=1
(set by ./check before numba is imported) and with a Python index monitor around every kernel call.
"""

from __future__ import annotations

import os

import numpy as np
from hypothesis import strategies as st

from vlib import core, e2e, monitor, roms, scen, sim

PID = "C17"
LEVEL = "exploration"
DT = 600
DX = 400.0


def guard(res, fn):
    """Run fn under the monitor; classify any out-of-range access."""
    monitor.install()
    try:
        return fn()
    except monitor.OutOfBounds as e:
        res.fail("index_outside_array", str(e))
    except IndexError as e:
        import traceback

        res.fail("indexerror_boundscheck", f"{e!r}\n{traceback.format_exc()[-500:]}")
    return None


# ---- (a) the sampling space of C02 ------------------------------------------------


def sample_oracle(case) -> core.CaseResult:
    from checks import c02

    e2e.quiet()
    res = core.CaseResult()
    jm, im, N = case["jm"], case["im"], case["N"]
    G = roms.make_grid(jm, im, N=N, h=case["h"], hval=case["hval"], mask=case["mask"], dx=800.0,
                       levels=case["levels"], Vtransform=case["vt"], hc=min(3.0, case["hval"]), seed=case["seed"])
    U, V, extra, _ = c02.build_fields(dict(case, field="noise"), G)
    sub_eff = case["sub"] or [1, im - 1, 1, jm - 1]
    with e2e.workdir() as d:
        roms.write_roms(d / "f.nc", G, [scen.T0, scen.T0 + scen.S(4 * DT)], U, V, extra=extra)
        X, Y, Z = c02.positions(case, G, sub_eff)
        guard(res, lambda: c02.ladim_sample(d, d / "f.nc", case["sub"], case, X, Y, Z))
    lo_x, hi_x, lo_y, hi_y = sub_eff[0] + 0.5, sub_eff[1] - 1.5, sub_eff[2] + 0.5, sub_eff[3] - 1.5
    res.nontrivial = bool(((X - lo_x < 1) | (hi_x - X < 1) | (Y - lo_y < 1) | (hi_y - Y < 1)).any())
    res.cls("subgrid" if case["sub"] else "fullgrid")
    res.cls("N1" if N == 1 else "N>=2")
    return res


# ---- (b) end-to-end histories: fast flow, RK schemes, diffusion, subgrids ----------


@st.composite
def history_cases(draw, max_steps):
    scn = draw(sim.scenario(max_steps=max_steps, reverse=None, extra_forcing=None, min_gap=1,
                            masks=("none", "islands", "coast"), advection=("RK2", "RK4", "EF", "RK4"),
                            pvars=[], lonlat=(False,), ref_kinds=("none",)))
    g = scn["grid"]
    if draw(st.booleans()):
        i0 = draw(st.integers(1, 2))
        j0 = draw(st.integers(1, 2))
        g["sub"] = [i0, g["im"] - draw(st.integers(1, 2)), j0, g["jm"] - draw(st.integers(1, 2))]
    scn["forcing"]["vel"] = dict(kind=draw(st.sampled_from(["noise", "shear", "const"])),
                                 amp=draw(st.sampled_from([0.5, 1.5, 4.0])),
                                 u=draw(st.sampled_from([0.0, 1.2, -1.5])), v=draw(st.sampled_from([0.0, 0.9, -1.1])),
                                 seed=draw(st.integers(0, 10**6)))
    scn["diffusion"] = draw(st.sampled_from([0.0, 20.0, 200.0]))
    scn["vertdiff"] = draw(st.sampled_from([0.0, 0.01]))
    for r in scn["release"]["rows"]:
        r["zf"] = draw(st.sampled_from([0.0, 1.0, r["zf"]]))
        if draw(st.booleans()):  # next to the rim of the sea cell
            r["fx"] = draw(st.sampled_from([-0.49, 0.49]))
            r["fy"] = draw(st.sampled_from([-0.49, 0.49]))
    return scn


def history_oracle(scn) -> core.CaseResult:
    res = core.CaseResult()
    res.cls(scn["tracker"]["advection"])
    res.cls("diffusion" if scn["diffusion"] else "no_diffusion")
    res.cls("subgrid" if scn["grid"].get("sub") else "fullgrid")
    extra = {"tracker": {}}
    if scn["diffusion"]:
        extra["tracker"]["diffusion"] = scn["diffusion"]
    if scn["vertdiff"]:
        extra["tracker"]["vertdiff"] = scn["vertdiff"]
    with e2e.workdir() as d:
        monitor.install()
        before = monitor.STATS["near_edge"]
        try:
            r, meta = sim.run(d, scn, record_output=False, extra_conf=extra)
        except ValueError:  # no sea cell in the drawn mask/subgrid
            res.cls("no_sea_cell")
            return res
        if r["status"] == "exc":
            if "OutOfBounds" in (r["exc"] or ""):
                res.fail("index_outside_array", r["exc"])
            elif "IndexError" in (r["exc"] or ""):
                res.fail("indexerror_boundscheck", f"{r['exc']}\n{(r['tb'] or '')[-500:]}")
            else:
                res.cls("other_failure_not_judged_here")
        res.nontrivial = monitor.STATS["near_edge"] > before
    return res


# ---- (c) boundary stress at tracker level ------------------------------------------


@st.composite
def stress_cases(draw):
    jm = draw(st.integers(6, 12))
    im = draw(st.integers(6, 12))
    edge = draw(st.sampled_from(["full", "low", "high", "inner"]))
    if edge == "full":
        sub = None
    elif edge == "low":
        sub = [1, draw(st.integers(4, im - 1)), 1, draw(st.integers(4, jm - 1))]
    elif edge == "high":
        sub = [draw(st.integers(1, im - 4)), im - 1, draw(st.integers(1, jm - 4)), jm - 1]
    else:
        sub = [draw(st.integers(1, im - 5)), 0, draw(st.integers(1, jm - 5)), 0]
        sub[1] = draw(st.integers(sub[0] + 3, im - 1))
        sub[3] = draw(st.integers(sub[2] + 3, jm - 1))
    return dict(jm=jm, im=im, sub=sub, N=draw(st.sampled_from([1, 2, 5])), seed=draw(st.integers(0, 10**6)),
                scheme=draw(st.sampled_from(["EF", "RK2", "RK4", "RK4"])), disp=draw(st.sampled_from([0.5, 1.5, 3.0])),
                diffusion=draw(st.sampled_from([0.0, 0.0, 500.0])), steps=draw(st.integers(1, 4)),
                reverse=draw(st.booleans()), h=draw(st.sampled_from(["flat", "noise"])))


def stress_oracle(case) -> core.CaseResult:
    from ladim.model import init_module

    e2e.quiet()
    monitor.install()
    res = core.CaseResult()
    jm, im, N = case["jm"], case["im"], case["N"]
    G = roms.make_grid(jm, im, N=N, h=case["h"], hval=30.0, dx=DX, seed=case["seed"], levels="random")
    rng = np.random.default_rng(case["seed"])
    amp = case["disp"] * DX / DT
    U = rng.uniform(-amp, amp, (3, N, jm, im - 1))
    V = rng.uniform(-amp, amp, (3, N, jm - 1, im))
    sgn = -1 if case["reverse"] else 1
    start = scen.T0
    stop = start + scen.S(sgn * case["steps"] * DT)
    ft = sorted([start - scen.S(sgn * DT), start + scen.S(sgn * 2 * DT), start + scen.S(sgn * 9 * DT)])
    sub = case["sub"] or [1, im - 1, 1, jm - 1]
    lo_x, hi_x, lo_y, hi_y = sub[0] + 0.5, sub[1] - 1.5, sub[2] + 0.5, sub[3] - 1.5
    n = 24
    X = rng.uniform(lo_x, hi_x, n)
    Y = rng.uniform(lo_y, hi_y, n)
    for k in range(0, n, 2):  # within 0.01 of the rim
        side = k % 8
        if side == 0:
            X[k] = lo_x + rng.uniform(1e-12, 0.01)
        elif side == 2:
            X[k] = hi_x - rng.uniform(1e-12, 0.01)
        elif side == 4:
            Y[k] = lo_y + rng.uniform(1e-12, 0.01)
        else:
            Y[k] = hi_y - rng.uniform(1e-12, 0.01)
    Z = rng.uniform(-1, 40, n)
    Z[:4] = [0.0, 30.0, 1e6, -5.0]
    with e2e.workdir() as d:
        roms.write_roms(d / "f.nc", G, ft, U, V)

        def body():
            modules = {}
            modules["state"] = init_module("state", {}, modules)
            tc = {"start": e2e.iso(start), "stop": e2e.iso(stop), "dt": DT}
            if case["reverse"]:
                tc["time_reversal"] = True
            modules["time"] = init_module("time", tc, modules)
            gc = {"filename": str(d / "f.nc")}
            if case["sub"]:
                gc["subgrid"] = list(case["sub"])
            modules["grid"] = init_module("grid", gc, modules)
            modules["forcing"] = init_module("forcing", {"filename": str(d / "f.nc")}, modules)
            tk = {"advection": case["scheme"]}
            if case["diffusion"]:
                tk["diffusion"] = case["diffusion"]
            modules["tracker"] = init_module("tracker", tk, modules)
            modules["tracker"].rng = np.random.default_rng(case["seed"] + 1)
            modules["state"].append(X=X, Y=Y, Z=Z)
            for _ in range(case["steps"]):
                modules["time"].update()
                modules["forcing"].update()
                modules["tracker"].update()
            modules["forcing"].close()

        before = monitor.STATS["near_edge"]
        guard(res, body)
        res.nontrivial = monitor.STATS["near_edge"] > before
    res.cls(case["scheme"])
    res.cls("subgrid" if case["sub"] else "fullgrid")
    return res


def shard(part, n, seed, known, max_steps):
    if os.environ.get("NUMBA_BOUNDSCHECK") != "1":
        raise core.HarnessError("NUMBA_BOUNDSCHECK=1 is not set in the worker")
    stt = core.Stats()
    if part == "sample":
        from checks import c02

        core.drive(part, c02.cases(), sample_oracle, n, seed, stt, known)
    elif part == "history":
        core.drive(part, history_cases(max_steps), history_oracle, n, seed, stt, known)
    else:
        core.drive(part, stress_cases(), stress_oracle, n, seed, stt, known)
    stt.notes.append(f"monitored calls in one worker: {dict(monitor.STATS)}")
    return stt


def run(ctx):
    import numba

    if not numba.config.BOUNDSCHECK:
        raise core.HarnessError("numba bounds checking is not active")
    jobs = []
    for part, nq, nt, k in (("sample", 600, 8000, 4), ("history", 450, 8000, 7), ("stress", 1500, 20000, 5)):
        for i, m in enumerate(core.split(ctx.n(nq, nt), k)):
            jobs.append((part, m, core.subseed(ctx.seed, part, i), ctx.known_sigs, ctx.n(12, 40)))
    stats = core.Stats()
    for s in core.pmap(shard, jobs):
        stats.merge(s)
    return stats, dict(
        rule=("three scenario families run with NUMBA_BOUNDSCHECK=1 and a Python index monitor around trilinear, "
              "z2s_kernel and nearest sampling: (sample) the position/depth/subgrid space of C02; (history) generated "
              "end-to-end runs with flow up to 4 m/s towards the open boundary, RK2/RK4, diffusion, subgrids, both "
              "layouts and directions; (stress) particles within 0.01 of the rim of the valid region, displacements up "
              "to 3 cells per step, subgrids touching the full-grid edge, depths far outside the column, N = 1; "
              "non-trivial = a monitored call touched the outermost row/column of a field array"),
        assumptions=["positions are those the model produces from releases inside the valid region (the quantifier)",
                     "numba wraps negative indices silently even with bounds checking; the Python monitor covers them"],
    )


def replay(part, case):
    return {"sample": sample_oracle, "history": history_oracle, "stress": stress_oracle}[part](case)
